import SasLexer.Spec.Basic
import SasLexer.Properties.C03
import SasLexer.Proofs.Pure.Lines
import SasLexer.Proofs.Model.DiscTop
import SasLexer.Proofs.Model.SortedFns
/-!
# C04 — lines and columns: theorems

Full-strength statement: `C04_statement`.  Proved (kernel, every control logic):
`kernel_C04_line_positions` — every recorded line start is a (byte, char) position pair of the
source, hence columns computed as `start − line.start` are code-point counts.
Proved (pure, every buffer, both arithmetic profiles): `DBuf.resolved_lines_exact` /
`C04_of_lineWF` — on a buffer whose line table is exact (`LineWF`: the table is `lineStarts s`,
every token is a position pair at or after the BOM whose line index is the number of line feeds
before it, starts never decrease, fewer than 2^32 lines) the resolved view / the accessors return
for **every** token exactly the line, column, end line and end column that the specification
computes from the text (the end-line formula `next.byte == line.byte && cur.byte < next.byte ⇒ −1`
is correct, no `u32` subtraction underflows).  So the token clauses of C04 are reduced to the line
discipline (`lineWFB`, a decidable monitor with `lineWFB_sound`).  Edge noted by the proof: with
2^32−1 line feeds `line + 1` would overflow `u32`; such an input needs > 100 GB of buffers.
Not a kernel fact (a program over the primitives may call `add_line` anywhere): that line
starts are recorded exactly after each line feed.  That is the *line discipline* of the scanners of
the control logic.  It is now a **theorem about the modelled control logic, for every input**: the
discipline is the predicate `awp` on programs (`Proofs/Model/Disc.lean`), proved of every function of
the model (`DiscCommon`, `DiscMacroCall`, `DiscMacroEval`, `DiscMacroArgs`, `DiscOpen`, `DiscMain`), sound
for every run (`DiscSound.awp_sound`); `C04_model` below combines it with the pure theorem into the
full statement of C04 for the model (hypothesis: the model returns at end of input — totality is C01).
The implementation is tied to it as before: `Spec.C04` (which recomputes the line table, every
line/column and every end position from the text) judges every implementation dump, and the
(offset, line, line table, error line/column, resolved view) projection is compared with the model.
-/
namespace SasLexer

def C04_statement : Prop := ∀ (cfg : Cfg) (s : List Char), Spec.C04 s (modelDump cfg s) = []

theorem kernel_C04_line_positions (cfg : Cfg) {α β} (p : Prog α) (q : Prog β) (s : List Char) :
    ∀ l ∈ (runThenDetach cfg p q s).1.lines, charIdxOfByte s l.byte = some l.start := by
  intro l hl
  have h0 := new_KPos cfg s
  have h2 := run_KPos cfg q _ (run_KPos cfg p _ h0)
  have hsrc : (Prog.run cfg q (Prog.run cfg p (Lexer.new cfg s)).2).2.src = s := by
    rw [run_src, run_src, new_src]
  have := (intoDetached_pos cfg _ h2).2 l hl
  rw [hsrc] at this
  exact charIdxOfByte_of_posPair this

/-- non-vacuity / regression: the input that broke the line count on the pinned tree
(unterminated `datalines4` swallowing a line feed) now satisfies every clause, as do line feeds
inside strings, comments, macro arguments and across a rollback -/
example : Spec.C04 ";datalines4;\nx\n;\ny".toList (modelDump ⟨false, false, false⟩ ";datalines4;\nx\n;\ny".toList) = [] := by
  decide +kernel
example : Spec.C04 "﻿a='x\ny';/*\n*/%m\n\n (a\n=1)".toList
    (modelDump ⟨true, true, false⟩ "﻿a='x\ny';/*\n*/%m\n\n (a\n=1)".toList) = [] := by
  decide +kernel

/-- **C04 reduced to the line discipline**: for a buffer with an exact line table (`LineWF`), every
clause of `Spec.C04` about tokens holds of its dump; only the clause about *errors* (whose line and
column are computed by the lexer at emission time, not by the buffer) is left. -/
theorem C04_of_lineWF (cfg : Cfg) (s : List Char) (b : DBuf) (errs : List ErrInfo) (o : Outcome)
    (snap : Option Snapshot) (iters : Nat) (h : LineWF s b) (hne : b.toks ≠ []) :
    ∀ c ∈ Spec.C04 s (dumpOfBuf cfg s b errs o snap iters), c = "error-line-col" := by
  obtain ⟨rows, hres, _, hrows⟩ := DBuf.resolved_lines_exact cfg s b h hne
  have h1 : (b.lines == lineStarts s) = true := by rw [h.lines]; simp
  have h2 : (b.toks.all fun t => t.line == lineIdxOfChar s t.start) = true := by
    rw [List.all_eq_true]
    intro t ht
    simp [(h.toks t ht).line]
  intro c hc
  unfold Spec.C04 dumpOfBuf at hc
  simp only [hres, h1, h2, Spec.clause, if_true, List.nil_append] at hc
  split at hc
  · split at hc
    · simp at hc
    · simpa using hc
  · rename_i hno
    exfalso
    apply hno
    rw [List.all_eq_true]
    intro x hx
    rw [List.mem_map] at hx
    obtain ⟨r, hr, rfl⟩ := hx
    obtain ⟨k, hk⟩ := List.getElem?_of_mem hr
    obtain ⟨e1, e2, e3⟩ := hrows k r hk
    unfold rowInts
    cases hp : r.payload <;> simp [payloadInts, e1, e2, ← e3]


theorem posPair_of_charIdxOfByte : ∀ (s : List Char) (b c : Nat), charIdxOfByte s b = some c → PosPair s b c
  | s, 0, c, h => by
    have : c = 0 := by cases s <;> simp [charIdxOfByte] at h <;> omega
    subst this; exact PosPair.zero s
  | [], b + 1, c, h => by simp [charIdxOfByte] at h
  | c0 :: cs, b + 1, c, h => by
    unfold charIdxOfByte at h
    split at h
    · rename_i hle
      simp only [Option.map_eq_some_iff] at h
      obtain ⟨c', hc', rfl⟩ := h
      obtain ⟨pre, suf, hs, hb, hc⟩ := posPair_of_charIdxOfByte cs _ c' hc'
      refine ⟨c0 :: pre, suf, by simp [hs], ?_, by simp [hc]⟩
      simp only [utf8Len]; omega
    · simp at h

theorem monotone_index : ∀ (l : List TokInfo), Spec.monotone (l.map (·.start)) = true →
    ∀ i x y, l[i]? = some x → l[i + 1]? = some y → x.start ≤ y.start
  | [], _, i, x, y, hx, _ => by simp at hx
  | [a], _, i, x, y, hx, hy => by
    cases i <;> simp at hy
  | a :: b :: r, h, i, x, y, hx, hy => by
    simp only [List.map_cons, Spec.monotone, Bool.and_eq_true, decide_eq_true_eq] at h
    cases i with
    | zero =>
      simp only [List.getElem?_cons_zero, Option.some.injEq, Nat.zero_add, List.getElem?_cons_succ] at hx hy
      subst hx; subst hy; exact h.1
    | succ i =>
      simp only [List.getElem?_cons_succ] at hx hy
      exact monotone_index (b :: r) (by simpa using h.2) i x y hx hy

/-- executable form of `LineWF` (a run-time monitor on dumps, and the bridge for kernel-evaluated
instances) -/
def lineWFB (s : List Char) (b : DBuf) : Bool :=
  b.lines == lineStarts s && decide ((lineStarts s).length < two32) &&
  b.toks.all (fun t => Spec.posOk s t.byte t.start && decide (bomChars s ≤ t.start) && t.line == lineIdxOfChar s t.start) &&
  Spec.monotone (b.toks.map (·.start))

theorem lineWFB_sound {s : List Char} {b : DBuf} (h : lineWFB s b = true) : LineWF s b := by
  unfold lineWFB at h
  simp only [Bool.and_eq_true, decide_eq_true_eq, List.all_eq_true, beq_iff_eq] at h
  obtain ⟨⟨⟨h1, h2⟩, h3⟩, h4⟩ := h
  refine ⟨h1, h2, ?_, monotone_index b.toks h4⟩
  intro t ht
  obtain ⟨⟨hp, hb⟩, hl⟩ := h3 t ht
  refine ⟨posPair_of_charIdxOfByte s _ _ ?_, hb, hl⟩
  simpa [Spec.posOk] using hp

/-- non-vacuity: the buffer the model produces for a multi-line program with a BOM, a line feed
inside a string and inside a comment, a rollback and an empty recovery token satisfies `LineWF`,
so `C04_of_lineWF` applies to it -/
example : lineWFB "\uFEFFa='x\ny';/*\n*/%m\n\n (a\n=1);%let b 1;".toList
    (lexProgram ⟨true, true, false⟩ "\uFEFFa='x\ny';/*\n*/%m\n\n (a\n=1);%let b 1;".toList).buf = true := by
  decide +kernel

/-! ## the line discipline is a theorem (model level, every input)

`Proofs/Model/Disc*.lean` prove that the whole modelled control logic (every scanner, dispatcher, pre-loader, the
main loop, finalisation) satisfies the scanning discipline `awp`, and `DiscSound.lean` that every program with
`awp` keeps the line table exact.  Consequences for the model: `model_lines_exact`, `model_single_eof`
(`DiscTop.lean`) and, through the pure theorem above, the full C04. -/

theorem sortedR_mono {s : List Char} : ∀ {ts : List TokInfo}, SortedR ts → (∀ t ∈ ts, PosPair s t.byte t.start) →
    ∀ i x y, ts.reverse[i]? = some x → ts.reverse[i + 1]? = some y → x.start ≤ y.start := by
  intro ts hs hp i x y hx hy
  have hpw : ts.reverse.Pairwise (fun a b => a.byte ≤ b.byte) := by
    rw [List.pairwise_reverse]; exact hs
  have hxm : x ∈ ts := by simpa using List.mem_of_getElem? hx
  have hym : y ∈ ts := by simpa using List.mem_of_getElem? hy
  have hb : x.byte ≤ y.byte := by
    rw [List.pairwise_iff_getElem] at hpw
    obtain ⟨hi, rfl⟩ := List.getElem?_eq_some_iff.1 hx
    obtain ⟨hj, rfl⟩ := List.getElem?_eq_some_iff.1 hy
    exact hpw i (i + 1) hi hj (by omega)
  have := posPair_lt_iff (hp y hym) (hp x hxm)
  by_cases hlt : y.start < x.start
  · have := this.1.2 hlt; omega
  · omega

/-- token starts of the model's buffer never decrease (debug profile: kernel theorem `run_KMono`) -/
def TokMono (b : DBuf) : Prop := ∀ i x y, b.toks[i]? = some x → b.toks[i + 1]? = some y → x.start ≤ y.start

theorem model_tokMono_debug (cfg : Cfg) (hd : cfg.debug = true) (s : List Char)
    (hend : (lexProgram cfg s).ending = some .eof) : TokMono (lexProgram cfg s).buf := by
  obtain ⟨L2, hf, hb, hfin, hsorted⟩ := lexProgram_final cfg s hend
  obtain ⟨hd1, _⟩ := hf.detached cfg
  unfold TokMono
  rw [hb, hd1]
  have hpp : ∀ t ∈ L2.toksR, PosPair s t.byte t.start := by
    intro t ht
    have := hf.kpos.toks t ht
    rw [hf.src] at this; exact this
  exact sortedR_mono (s := s) (hsorted hd) hpp

theorem new_SInv (cfg : Cfg) (s : List Char) : SInv ⟨false, .none, true⟩ (Lexer.new cfg s) := by
  constructor
  · simp [Lexer.new, Lexer.bufAddLine, SortedR]
  · intro t ht; simp [Lexer.new, Lexer.bufAddLine] at ht
  · simp [Lexer.new, Lexer.bufAddLine, Lexer.curByte]
  · intro _ t ht; simp [Lexer.new, Lexer.bufAddLine] at ht
  · intro _; simp [Lexer.new, Lexer.bufAddLine]
  · intro h; cases h
  · intro c hc; simp [Lexer.new, Lexer.bufAddLine] at hc

/-- byte starts of the detached buffer are sorted when those of the work buffer are and lie within the source -/
theorem intoDetached_sorted (cfg : Cfg) (L : Lexer) (hs : SortedR L.toksR) (hle : ∀ t ∈ L.toksR, t.byte ≤ L.srcLen) :
    (L.intoDetached cfg).1.toks.Pairwise (fun a b => a.byte ≤ b.byte) := by
  unfold Lexer.intoDetached
  have e : (if L.linesR.isEmpty = true then (L.bufAddLine cfg 0 0).2 else L).toksR = L.toksR := by split <;> rfl
  have e2 : (if L.linesR.isEmpty = true then (L.bufAddLine cfg 0 0).2 else L).srcLen = L.srcLen := by split <;> rfl
  generalize (if L.linesR.isEmpty = true then (L.bufAddLine cfg 0 0).2 else L) = L1 at e e2
  simp only
  rw [List.pairwise_reverse]
  cases hl : L1.toksR with
  | nil => simp
  | cons a b =>
    simp only
    split
    · rw [e]; exact hs
    · simp only
      rw [List.pairwise_cons]
      refine ⟨?_, by rw [← hl, e]; exact hs⟩
      intro x hx
      rw [e2]
      exact hle x (by rw [← e, hl]; exact hx)

/-- **token starts never decrease in the modelled lexer — both profiles, every input, every ending** -/
theorem model_bytes_sorted (cfg : Cfg) (s : List Char) :
    (lexProgram cfg s).buf.toks.Pairwise (fun a b => a.byte ≤ b.byte) := by
  unfold lexProgram
  simp only
  have h0 := new_SInv cfg s
  have hm := mainLoop_sany (cfg := cfg) (budgetMul * (Lexer.new cfg s).srcLen + 64) 0 ((Lexer.new cfg s).srcLen, [Mode.default])
  unfold SAny at hm
  have h1 := swp_sound cfg _ (fun _ _ => True) _ (Lexer.new cfg s) (hm _ _ (fun _ _ => trivial)) h0
  generalize hR : Prog.run cfg (mainLoop cfg (budgetMul * (Lexer.new cfg s).srcLen + 64) 0 ((Lexer.new cfg s).srcLen, [Mode.default]))
    (Lexer.new cfg s) = R at h1
  obtain ⟨ra, L1⟩ := R
  cases ra with
  | none => simp
  | some en =>
    obtain ⟨e, n⟩ := en
    simp only at h1 ⊢
    obtain ⟨σ1, _, hi1⟩ := h1.2 (e, n) rfl
    have hle : ∀ (L : Lexer) (σ : SS), SInv σ L → ∀ t ∈ L.toksR, t.byte ≤ L.srcLen := by
      intro L σ hi t ht
      exact Nat.le_trans (hi.le t ht) (by simp [Lexer.curByte])
    by_cases hdet : e = .detected
    · subst hdet
      simp only [beq_self_eq_true, if_true]
      cases L1.panicked with
      | some m => simp
      | none => exact intoDetached_sorted cfg L1 hi1.sorted (hle _ _ hi1)
    · have hb : (e == LoopEnd.detected) = false := by simpa using hdet
      simp only [hb, Bool.false_eq_true, if_false]
      have hf := finalizeLexing_sany (cfg := cfg)
      unfold SAny at hf
      have h2 := swp_sound cfg _ (fun _ _ => True) σ1 L1 (hf _ _ (fun _ _ => trivial)) hi1
      cases hp : (Prog.run cfg (finalizeLexing cfg) L1).2.panicked with
      | some m => simp
      | none =>
        simp only
        have hr : (Prog.run cfg (finalizeLexing cfg) L1).1 = some () := by
          cases hr : (Prog.run cfg (finalizeLexing cfg) L1).1 with
          | none => exact absurd hp (run_none_panicked cfg _ L1 hr)
          | some a => rfl
        obtain ⟨σ2, _, hi2⟩ := h2.2 () hr
        exact intoDetached_sorted cfg _ hi2.sorted (hle _ _ hi2)


/-- token starts (char offsets) never decrease — both profiles (from `model_bytes_sorted` and the position-pair theorem) -/
theorem model_tokMono (cfg : Cfg) (s : List Char) (hend : (lexProgram cfg s).ending = some .eof) :
    TokMono (lexProgram cfg s).buf := by
  obtain ⟨_, htoks, _⟩ := model_lines_exact cfg s hend
  have hb := model_bytes_sorted cfg s
  intro i x y hx hy
  have hxy : x.byte ≤ y.byte := by
    rw [List.pairwise_iff_getElem] at hb
    have hi : i < (lexProgram cfg s).buf.toks.length := (List.getElem?_eq_some_iff.1 hx).1
    have hj : i + 1 < (lexProgram cfg s).buf.toks.length := (List.getElem?_eq_some_iff.1 hy).1
    have := hb i (i + 1) hi hj (Nat.lt_succ_self i)
    rw [(List.getElem?_eq_some_iff.1 hx).2, (List.getElem?_eq_some_iff.1 hy).2] at this
    exact this
  have px := (htoks x (List.mem_of_getElem? hx)).1
  have py := (htoks y (List.mem_of_getElem? hy)).1
  by_cases hlt : y.start < x.start
  · have := (posPair_lt_iff py px).1.2 hlt; omega
  · omega

/-- the model's buffer satisfies the hypothesis of the pure theorem `C04_of_lineWF` (the line discipline is a
theorem now; only start-offset monotonicity is a hypothesis, discharged for the debug profile below) -/
theorem model_lineWF (cfg : Cfg) (s : List Char) (hend : (lexProgram cfg s).ending = some .eof)
    (hmono : TokMono (lexProgram cfg s).buf) (hsmall : (lineStarts s).length < two32) :
    LineWF s (lexProgram cfg s).buf := by
  obtain ⟨h1, h2, _⟩ := model_lines_exact cfg s hend
  exact ⟨h1, hsmall, fun t ht => ⟨(h2 t ht).1, (h2 t ht).2.1, (h2 t ht).2.2⟩, hmono⟩

/-- **C04 for the modelled lexer, every input, both profiles** (token-start monotonicity is a theorem of the control
logic: `model_bytes_sorted`, discipline `swp` of `Proofs/Model/Sorted*.lean`): when the model returns at end of
input, *every* clause of `Spec.C04` holds of its dump — line table, start line and column, end line and
column of every token, line and column of every error. -/
theorem C04_model_of_mono (cfg : Cfg) (s : List Char) (hlen : utf8Len s < two32)
    (hend : (lexProgram cfg s).ending = some .eof) (hmono : TokMono (lexProgram cfg s).buf)
    (hsmall : (lineStarts s).length < two32) :
    Spec.C04 s (modelDump cfg s) = [] := by
  have hW := model_lineWF cfg s hend hmono hsmall
  obtain ⟨_, _, herr⟩ := model_lines_exact cfg s hend
  obtain ⟨pre, e, htoks, _⟩ := model_single_eof cfg s hend
  have hne : (lexProgram cfg s).buf.toks ≠ [] := by rw [htoks]; simp
  unfold modelDump
  have hl : ¬ utf8Len s ≥ two32 := by omega
  simp only [hl, if_false, hend]
  have key := C04_of_lineWF cfg s (lexProgram cfg s).buf (lexProgram cfg s).final.errsR.reverse
    (if (LoopEnd.eof == LoopEnd.budget) = true then Outcome.budget else Outcome.ok) (lexProgram cfg s).snap
    (lexProgram cfg s).iters hW hne
  generalize hD : dumpOfBuf cfg s (lexProgram cfg s).buf (lexProgram cfg s).final.errsR.reverse
    (if (LoopEnd.eof == LoopEnd.budget) = true then Outcome.budget else Outcome.ok) (lexProgram cfg s).snap
    (lexProgram cfg s).iters = D at key ⊢
  have hDe : D.errs = (lexProgram cfg s).final.errsR.reverse := by rw [← hD]; rfl
  have herrs : (D.errs.all fun e => e.line == lineIdxOfChar s e.char + 1 && e.col == colOfChar s e.char) = true := by
    rw [hDe, List.all_eq_true]
    intro e he
    have := herr e (by simpa using he)
    simp [this.1, this.2]
  unfold Spec.C04 at key ⊢
  simp only [herrs, Spec.clause, if_true, List.append_nil] at key ⊢
  have hno : ∀ (n : String) (b : Bool), n ≠ "error-line-col" → (∀ c ∈ (if b = true then [] else [n]), c = "error-line-col") →
      (if b = true then ([] : List String) else [n]) = [] := by
    intro n b hn hc
    cases b with
    | true => rfl
    | false => exact absurd (hc n (by simp)) hn
  generalize (D.lines == lineStarts s) = b1 at key ⊢
  generalize (D.toks.all fun t => t.line == lineIdxOfChar s t.start) = b2 at key ⊢
  have e1 := hno "line-infos" b1 (by decide) (fun c hc => key c (by simp [hc]))
  have e2 := hno "token-start-line" b2 (by decide) (fun c hc => key c (by simp [hc]))
  rw [e1, e2] at key ⊢
  simp only [List.append_nil, List.nil_append] at key ⊢
  exact hno "resolved-rows" _ (by decide) key


/-- **C04 for the modelled lexer, debug profile, every input**: no hypothesis on the control logic is left -/
theorem C04_model (cfg : Cfg) (s : List Char) (hlen : utf8Len s < two32)
    (hend : (lexProgram cfg s).ending = some .eof) (hsmall : (lineStarts s).length < two32) :
    Spec.C04 s (modelDump cfg s) = [] :=
  C04_model_of_mono cfg s hlen hend (model_tokMono cfg s hend) hsmall

/-- non-vacuity of `C04_model` / `model_lines_exact`: a program with a BOM, line feeds inside a string, a comment
and a macro call argument, a rollback and a recovery token runs to end of input in the model -/
example : (lexProgram ⟨true, true, false⟩ "\uFEFFa='x\ny';/*\n*/%m\n\n (a\n=1);%let b 1;".toList).ending = some .eof := by
  decide +kernel
example : (lexProgram ⟨false, false, false⟩ "data a;\ndatalines;\n1 2\n;\n%macro m(a=1);\n* c;\n%mend;".toList).ending = some .eof := by
  decide +kernel

end SasLexer
