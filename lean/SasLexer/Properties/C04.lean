import SasLexer.Spec.Basic
import SasLexer.Properties.C03
import SasLexer.Proofs.Pure.Lines
/-!
# C04 — lines and columns: theorems

Full-strength statement: `C04_statement`.  Proved (kernel, every control logic):
`kernel_C04_line_positions` — every recorded line start is a (byte, char) position pair of the
source, hence columns computed as `start − line.start` are code-point counts.
Proved (pure, every buffer, both arithmetic profiles): `DBuf.resolved_lines_exact` /
`C04_of_lineWF` — on a buffer whose line table is exact (`LineWF`: the table is `lineStarts s`,
every token is a position pair at or after the BOM whose line index is the number of line feeds
before it, starts never decrease, fewer than 2^32 lines) the resolved view / the accessors return
for **every** token exactly the line, column, end line and end column that the specification
computes from the text (the end-line formula `next.byte == line.byte && cur.byte < next.byte ⇒ −1`
is correct, no `u32` subtraction underflows).  So the token clauses of C04 are reduced to the line
discipline (`lineWFB`, a decidable monitor with `lineWFB_sound`).  Edge noted by the proof: with
2^32−1 line feeds `line + 1` would overflow `u32`; such an input needs > 100 GB of buffers.
Not a kernel fact (a program over the primitives may call `add_line` anywhere): that line
starts are recorded exactly after each line feed.  That is the *line discipline* of the ~15
scanners of the control logic; it is decided per run by `Spec.C04` (which recomputes the line
table, every line/column and every end position from the text) on implementation dumps and
tied by correspondence on the (offset, line, line table, error line/column, resolved view)
projection.  `C04_partial`: the clause proved; the rest is labelled model-level.
-/
namespace SasLexer

def C04_statement : Prop := ∀ (cfg : Cfg) (s : List Char), Spec.C04 s (modelDump cfg s) = []

theorem kernel_C04_line_positions (cfg : Cfg) {α β} (p : Prog α) (q : Prog β) (s : List Char) :
    ∀ l ∈ (runThenDetach cfg p q s).1.lines, charIdxOfByte s l.byte = some l.start := by
  intro l hl
  have h0 := new_KPos cfg s
  have h2 := run_KPos cfg q _ (run_KPos cfg p _ h0)
  have hsrc : (Prog.run cfg q (Prog.run cfg p (Lexer.new cfg s)).2).2.src = s := by
    rw [run_src, run_src, new_src]
  have := (intoDetached_pos cfg _ h2).2 l hl
  rw [hsrc] at this
  exact charIdxOfByte_of_posPair this

/-- non-vacuity / regression: the input that broke the line count on the pinned tree
(unterminated `datalines4` swallowing a line feed) now satisfies every clause, as do line feeds
inside strings, comments, macro arguments and across a rollback -/
example : Spec.C04 ";datalines4;\nx\n;\ny".toList (modelDump ⟨false, false, false⟩ ";datalines4;\nx\n;\ny".toList) = [] := by
  decide +kernel
example : Spec.C04 "﻿a='x\ny';/*\n*/%m\n\n (a\n=1)".toList
    (modelDump ⟨true, true, false⟩ "﻿a='x\ny';/*\n*/%m\n\n (a\n=1)".toList) = [] := by
  decide +kernel

/-- **C04 reduced to the line discipline**: for a buffer with an exact line table (`LineWF`), every
clause of `Spec.C04` about tokens holds of its dump; only the clause about *errors* (whose line and
column are computed by the lexer at emission time, not by the buffer) is left. -/
theorem C04_of_lineWF (cfg : Cfg) (s : List Char) (b : DBuf) (errs : List ErrInfo) (o : Outcome)
    (snap : Option Snapshot) (iters : Nat) (h : LineWF s b) (hne : b.toks ≠ []) :
    ∀ c ∈ Spec.C04 s (dumpOfBuf cfg s b errs o snap iters), c = "error-line-col" := by
  obtain ⟨rows, hres, _, hrows⟩ := DBuf.resolved_lines_exact cfg s b h hne
  have h1 : (b.lines == lineStarts s) = true := by rw [h.lines]; simp
  have h2 : (b.toks.all fun t => t.line == lineIdxOfChar s t.start) = true := by
    rw [List.all_eq_true]
    intro t ht
    simp [(h.toks t ht).line]
  intro c hc
  unfold Spec.C04 dumpOfBuf at hc
  simp only [hres, h1, h2, Spec.clause, if_true, List.nil_append] at hc
  split at hc
  · split at hc
    · simp at hc
    · simpa using hc
  · rename_i hno
    exfalso
    apply hno
    rw [List.all_eq_true]
    intro x hx
    rw [List.mem_map] at hx
    obtain ⟨r, hr, rfl⟩ := hx
    obtain ⟨k, hk⟩ := List.getElem?_of_mem hr
    obtain ⟨e1, e2, e3⟩ := hrows k r hk
    unfold rowInts
    cases hp : r.payload <;> simp [payloadInts, e1, e2, ← e3]


theorem posPair_of_charIdxOfByte : ∀ (s : List Char) (b c : Nat), charIdxOfByte s b = some c → PosPair s b c
  | s, 0, c, h => by
    have : c = 0 := by cases s <;> simp [charIdxOfByte] at h <;> omega
    subst this; exact PosPair.zero s
  | [], b + 1, c, h => by simp [charIdxOfByte] at h
  | c0 :: cs, b + 1, c, h => by
    unfold charIdxOfByte at h
    split at h
    · rename_i hle
      simp only [Option.map_eq_some_iff] at h
      obtain ⟨c', hc', rfl⟩ := h
      obtain ⟨pre, suf, hs, hb, hc⟩ := posPair_of_charIdxOfByte cs _ c' hc'
      refine ⟨c0 :: pre, suf, by simp [hs], ?_, by simp [hc]⟩
      simp only [utf8Len]; omega
    · simp at h

theorem monotone_index : ∀ (l : List TokInfo), Spec.monotone (l.map (·.start)) = true →
    ∀ i x y, l[i]? = some x → l[i + 1]? = some y → x.start ≤ y.start
  | [], _, i, x, y, hx, _ => by simp at hx
  | [a], _, i, x, y, hx, hy => by
    cases i <;> simp at hy
  | a :: b :: r, h, i, x, y, hx, hy => by
    simp only [List.map_cons, Spec.monotone, Bool.and_eq_true, decide_eq_true_eq] at h
    cases i with
    | zero =>
      simp only [List.getElem?_cons_zero, Option.some.injEq, Nat.zero_add, List.getElem?_cons_succ] at hx hy
      subst hx; subst hy; exact h.1
    | succ i =>
      simp only [List.getElem?_cons_succ] at hx hy
      exact monotone_index (b :: r) (by simpa using h.2) i x y hx hy

/-- executable form of `LineWF` (a run-time monitor on dumps, and the bridge for kernel-evaluated
instances) -/
def lineWFB (s : List Char) (b : DBuf) : Bool :=
  b.lines == lineStarts s && decide ((lineStarts s).length < two32) &&
  b.toks.all (fun t => Spec.posOk s t.byte t.start && decide (bomChars s ≤ t.start) && t.line == lineIdxOfChar s t.start) &&
  Spec.monotone (b.toks.map (·.start))

theorem lineWFB_sound {s : List Char} {b : DBuf} (h : lineWFB s b = true) : LineWF s b := by
  unfold lineWFB at h
  simp only [Bool.and_eq_true, decide_eq_true_eq, List.all_eq_true, beq_iff_eq] at h
  obtain ⟨⟨⟨h1, h2⟩, h3⟩, h4⟩ := h
  refine ⟨h1, h2, ?_, monotone_index b.toks h4⟩
  intro t ht
  obtain ⟨⟨hp, hb⟩, hl⟩ := h3 t ht
  refine ⟨posPair_of_charIdxOfByte s _ _ ?_, hb, hl⟩
  simpa [Spec.posOk] using hp

/-- non-vacuity: the buffer the model produces for a multi-line program with a BOM, a line feed
inside a string and inside a comment, a rollback and an empty recovery token satisfies `LineWF`,
so `C04_of_lineWF` applies to it -/
example : lineWFB "\uFEFFa='x\ny';/*\n*/%m\n\n (a\n=1);%let b 1;".toList
    (lexProgram ⟨true, true, false⟩ "\uFEFFa='x\ny';/*\n*/%m\n\n (a\n=1);%let b 1;".toList).buf = true := by
  decide +kernel

end SasLexer
