import SasLexer.Spec.Basic
import SasLexer.Properties.C03
/-!
# C04 — lines and columns: theorems

Full-strength statement: `C04_statement`.  Proved (kernel, every control logic):
`kernel_C04_line_positions` — every recorded line start is a (byte, char) position pair of the
source, hence columns computed as `start − line.start` are code-point counts.
Not a kernel fact (a program over the primitives may call `add_line` anywhere): that line
starts are recorded exactly after each line feed.  That is the *line discipline* of the ~15
scanners of the control logic; it is decided per run by `Spec.C04` (which recomputes the line
table, every line/column and every end position from the text) on implementation dumps and
tied by correspondence on the (offset, line, line table, error line/column, resolved view)
projection.  `C04_partial`: the clause proved; the rest is labelled model-level.
-/
namespace SasLexer

def C04_statement : Prop := ∀ (cfg : Cfg) (s : List Char), Spec.C04 s (modelDump cfg s) = []

theorem kernel_C04_line_positions (cfg : Cfg) {α β} (p : Prog α) (q : Prog β) (s : List Char) :
    ∀ l ∈ (runThenDetach cfg p q s).1.lines, charIdxOfByte s l.byte = some l.start := by
  intro l hl
  have h0 := new_KPos cfg s
  have h2 := run_KPos cfg q _ (run_KPos cfg p _ h0)
  have hsrc : (Prog.run cfg q (Prog.run cfg p (Lexer.new cfg s)).2).2.src = s := by
    rw [run_src, run_src, new_src]
  have := (intoDetached_pos cfg _ h2).2 l hl
  rw [hsrc] at this
  exact charIdxOfByte_of_posPair this

/-- non-vacuity / regression: the input that broke the line count on the pinned tree
(unterminated `datalines4` swallowing a line feed) now satisfies every clause, as do line feeds
inside strings, comments, macro arguments and across a rollback -/
example : Spec.C04 ";datalines4;\nx\n;\ny".toList (modelDump ⟨false, false, false⟩ ";datalines4;\nx\n;\ny".toList) = [] := by
  decide +kernel
example : Spec.C04 "﻿a='x\ny';/*\n*/%m\n\n (a\n=1)".toList
    (modelDump ⟨true, true, false⟩ "﻿a='x\ny';/*\n*/%m\n\n (a\n=1)".toList) = [] := by
  decide +kernel

end SasLexer
