import SasLexer.Proofs.Tables
/-!
# C16 — tokenization does not depend on ASCII letter case: theorems

Full-strength statement: `C16_statement`.  Proved (table theorems): `C16_tables` —
keyword and macro-keyword maps have upper-case ASCII keys and are queried after ASCII
upper-casing, so keyword recognition is case-insensitive (`upperStr_case_invariant`); the ASCII
character classes and hex digit values the control logic branches on are closed under case
change (all 128 code points); the mnemonic recogniser answers identically on all 2^n case
variants of every mnemonic.  The relational theorem over the whole control logic (two-case
match arms of the hand-modelled scanners behave like one-case arms) is not proved; it is
decided per run by `Spec.C16` on (source, case-mangled source) implementation dump pairs,
including all 2^n case variants of every keyword, and tied by correspondence.
-/
namespace SasLexer

def C16_statement : Prop :=
  ∀ (cfg : Cfg) (s s' : List Char), s.map toUpperAscii = s'.map toUpperAscii →
    Spec.C16 s s' (modelDump cfg s) (modelDump cfg s') = []

theorem C16_tables : type_of% keywords_upper ∧ type_of% ascii_classes_case_closed ∧ type_of% mnemonics_case_closed :=
  ⟨keywords_upper, ascii_classes_case_closed, mnemonics_case_closed⟩

/-- keyword lookup is case-insensitive -/
theorem C16_keyword_lookup (tbl : List (String × TokenType)) (a b : List Char)
    (h : a.map toUpperAscii = b.map toUpperAscii) : lookupKw tbl (upperStr a) = lookupKw tbl (upperStr b) := by
  rw [upperStr_case_invariant a b h]

example : Spec.C16 "Data A; x='4a'X; %LeT b=%EvAl(1 Ne 0ffX);".toList "dATA a; X='4A'x; %lEt B=%eVaL(1 nE 0FFx);".toList
    (modelDump ⟨true, true, false⟩ "Data A; x='4a'X; %LeT b=%EvAl(1 Ne 0ffX);".toList)
    (modelDump ⟨true, true, false⟩ "dATA a; X='4A'x; %lEt B=%eVaL(1 nE 0FFx);".toList) = [] := by
  decide +kernel

end SasLexer
