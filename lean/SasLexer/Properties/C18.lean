import SasLexer.Proofs.Tables
/-!
# C18 — `macro_sep` only adds separator tokens: theorems

Full-strength statement: `C18_statement` (for every source, the dump with the feature, after
removing `MacroSep` tokens and renumbering, equals the dump without it, and every separator is
placed by the rule).  Proved: `C18_placement` (table theorem, all token types): the separator
decision of the model coincides with the specification's placement rule.  The relational part
(the two runs perform the same operations) is decided per run by `Spec.C18` on the pair of
implementation dumps of the two feature builds and tied by model/implementation correspondence
in both feature configurations.
-/
namespace SasLexer

def C18_statement : Prop :=
  ∀ (s : List Char) (dbg : Bool), Spec.C18 s (modelDump ⟨dbg, false, false⟩ s) (modelDump ⟨dbg, true, false⟩ s) = []

theorem C18_placement :
    (∀ ty, needsMacroSep none ty = false) ∧
    (∀ ty p, p ∈ [TokenType.SEMI, .MacroLabel, .KwmThen, .KwmElse] → needsMacroSep (some p) ty = false) ∧
    (∀ ty, needsMacroSep (some .Identifier) ty = Spec.sepFollowSet.contains ty) := by
  have h := needsMacroSep_table
  rw [List.all_eq_true] at h
  refine ⟨?_, ?_, ?_⟩
  · intro ty
    have := h ty (tokenType_all_complete ty)
    simp only [Bool.and_eq_true, beq_iff_eq] at this
    exact this.1.2
  · intro ty p hp
    have := h ty (tokenType_all_complete ty)
    simp only [Bool.and_eq_true, List.all_eq_true, beq_iff_eq] at this
    exact this.2 p hp
  · intro ty
    have := h ty (tokenType_all_complete ty)
    simp only [Bool.and_eq_true, beq_iff_eq] at this
    exact this.1.1

/-- non-vacuity: an input with two separators (before `%let` and before a label) -/
example : Spec.C18 "a %let x=1; b %lbl: c".toList
    (modelDump ⟨false, false, false⟩ "a %let x=1; b %lbl: c".toList)
    (modelDump ⟨false, true, false⟩ "a %let x=1; b %lbl: c".toList) = []
  ∧ ((modelDump ⟨false, true, false⟩ "a %let x=1; b %lbl: c".toList).toks.filter (·.ty == .MacroSep)).length = 2 := by
  decide +kernel

end SasLexer
