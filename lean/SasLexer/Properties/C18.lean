import SasLexer.Proofs.Tables
import SasLexer.Properties.C06
/-!
# C18 — `macro_sep` only adds separator tokens: theorems

Full-strength statement: `C18_statement` (for every source, the dump with the feature, after
removing `MacroSep` tokens and renumbering, equals the dump without it, and every separator is
placed by the rule).  Proved: `C18_placement` (table theorem, all token types): the separator
decision of the model coincides with the specification's placement rule.  The relational part
(the two runs perform the same operations) is decided per run by `Spec.C18` on the pair of
implementation dumps of the two feature builds and tied by model/implementation correspondence
in both feature configurations.

Proved for the model, every input (corollaries of the channel / payload-kind pass of `Properties/C06.lean`):
`C18_no_sep_without_feature` — a build without the feature emits no `MacroSep` at all; `C18_sep_shape` — with the
feature, every `MacroSep` is on the default channel and carries no payload.
-/
namespace SasLexer

def C18_statement : Prop :=
  ∀ (s : List Char) (dbg : Bool), Spec.C18 s (modelDump ⟨dbg, false, false⟩ s) (modelDump ⟨dbg, true, false⟩ s) = []

theorem C18_placement :
    (∀ ty, needsMacroSep none ty = false) ∧
    (∀ ty p, p ∈ [TokenType.SEMI, .MacroLabel, .KwmThen, .KwmElse] → needsMacroSep (some p) ty = false) ∧
    (∀ ty, needsMacroSep (some .Identifier) ty = Spec.sepFollowSet.contains ty) := by
  have h := needsMacroSep_table
  rw [List.all_eq_true] at h
  refine ⟨?_, ?_, ?_⟩
  · intro ty
    have := h ty (tokenType_all_complete ty)
    simp only [Bool.and_eq_true, beq_iff_eq] at this
    exact this.1.2
  · intro ty p hp
    have := h ty (tokenType_all_complete ty)
    simp only [Bool.and_eq_true, List.all_eq_true, beq_iff_eq] at this
    exact this.2 p hp
  · intro ty
    have := h ty (tokenType_all_complete ty)
    simp only [Bool.and_eq_true, beq_iff_eq] at this
    exact this.1.1

/-- non-vacuity: an input with two separators (before `%let` and before a label) -/
example : Spec.C18 "a %let x=1; b %lbl: c".toList
    (modelDump ⟨false, false, false⟩ "a %let x=1; b %lbl: c".toList)
    (modelDump ⟨false, true, false⟩ "a %let x=1; b %lbl: c".toList) = []
  ∧ ((modelDump ⟨false, true, false⟩ "a %let x=1; b %lbl: c".toList).toks.filter (·.ty == .MacroSep)).length = 2 := by
  decide +kernel


theorem C18_no_sep_without_feature (s : List Char) (dbg : Bool) :
    ∀ t ∈ (modelDump ⟨dbg, false, false⟩ s).toks, t.ty ≠ .MacroSep :=
  model_no_sep_without_feature ⟨dbg, false, false⟩ s rfl

theorem C18_sep_shape (cfg : Cfg) (s : List Char) :
    ∀ t ∈ (modelDump cfg s).toks, t.ty = .MacroSep → t.chan = .DEFAULT ∧ t.payload = .none := by
  intro t ht hty
  have h := C06_model_tables cfg s
  rw [List.all_eq_true] at h
  have h1 := h t ht
  simp only [tokInfoOK, Bool.and_eq_true] at h1
  obtain ⟨⟨hc, hp⟩, _⟩ := h1
  rw [hty] at hc hp
  refine ⟨?_, ?_⟩
  · cases hch : t.chan <;> simp [hch, chanOK, isCommentTy] at hc ⊢
  · cases hpl : t.payload <;> simp [hpl, payKindOK, isStrTy, isIntTy, isFloatTy] at hp ⊢

end SasLexer
