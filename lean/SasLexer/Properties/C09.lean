import SasLexer.Spec.Basic
import SasLexer.Properties.C03
import SasLexer.Proofs.Kernel.ErrAnchor
/-!
# C09 — every reported error is anchored in the final token stream: theorems

Full-strength statement: `C09_statement`.  Proved for **every control logic** (kernel):

* `kernel_C09_offsets` — every error offset is a position pair of the source (clause "offsets");
* `kernel_C09_last_token_exists` — the token an error names exists in the returned buffer
  (first half of clause "last-token").  This is the invariant that the repaired `rollback`
  (errors truncated together with tokens, `fix:` commit) makes true; on the pinned tree it was
  refuted by `%do %m(a)=1 %to 3;`.

Not proved (model level): "starts at or before the error", source order of errors, and the
one-to-one correspondence between `MissingExpected*` errors and zero-width recovery tokens.
They depend on the control logic (e.g. that no error is emitted between a speculative token and
its rollback other than through `lex_expected_token`, the delayed `OpenCodeRecursionError`), are
decided per run by `Spec.C09` on implementation dumps and tied by correspondence on the
(errors, token type/offset) projection.
-/
namespace SasLexer

def C09_statement : Prop := ∀ (cfg : Cfg) (s : List Char), Spec.C09 s (modelDump cfg s) = []

theorem kernel_C09_offsets (cfg : Cfg) {α β} (p : Prog α) (q : Prog β) (s : List Char) :
    ∀ e ∈ (Prog.run cfg q (Prog.run cfg p (Lexer.new cfg s)).2).2.errsR,
      charIdxOfByte s e.byte = some e.char :=
  (kernel_C03 cfg p q s).2

theorem intoDetached_length (cfg : Cfg) (L : Lexer) : L.toksR.length ≤ (L.intoDetached cfg).1.toks.length := by
  unfold Lexer.intoDetached
  dsimp only
  have e : (if L.linesR.isEmpty = true then (L.bufAddLine cfg 0 0).2 else L).toksR = L.toksR := by split <;> rfl
  generalize (if L.linesR.isEmpty = true then (L.bufAddLine cfg 0 0).2 else L) = L1 at e
  rw [← e]
  split
  · split <;> simp_all
  · simp_all

theorem kernel_C09_last_token_exists (cfg : Cfg) {α β} (p : Prog α) (q : Prog β) (s : List Char) :
    ∀ e ∈ (Prog.run cfg q (Prog.run cfg p (Lexer.new cfg s)).2).2.errsR,
      ∀ i, e.lastTok = some i → i < (runThenDetach cfg p q s).1.toks.length := by
  intro e he i hi
  have h := run_KErr cfg q _ (run_KErr cfg p _ (new_KErr cfg s))
  exact Nat.lt_of_lt_of_le (h.errs e he i hi) (intoDetached_length cfg _)

/-- the input that refuted the anchoring on the pinned tree now satisfies every clause -/
example : Spec.C09 "%do %m(a)=1 %to 3;".toList (modelDump ⟨false, false, false⟩ "%do %m(a)=1 %to 3;".toList) = [] := by
  decide +kernel

/-- non-vacuity: an input with a genuine missing-symbol error and its zero-width recovery token -/
example : (modelDump ⟨true, true, false⟩ "%let a 1;".toList).errs.length = 1 ∧
    Spec.C09 "%let a 1;".toList (modelDump ⟨true, true, false⟩ "%let a 1;".toList) = [] := by
  decide +kernel

end SasLexer
