import SasLexer.Spec.Basic
import SasLexer.Proofs.Model.ErrOrdFns
import SasLexer.Proofs.Model.ErrAnch
import SasLexer.Properties.C04
import SasLexer.Properties.C03
import SasLexer.Proofs.Kernel.ErrAnchor
/-!
# C09 — every reported error is anchored in the final token stream: theorems

Full-strength statement: `C09_statement`.  Proved for **every control logic** (kernel):

* `kernel_C09_offsets` — every error offset is a position pair of the source (clause "offsets");
* `kernel_C09_last_token_exists` — the token an error names exists in the returned buffer
  (first half of clause "last-token").  This is the invariant that the repaired `rollback`
  (errors truncated together with tokens, `fix:` commit) makes true; on the pinned tree it was
  refuted by `%do %m(a)=1 %to 3;`.

Not proved (model level): the
one-to-one correspondence between `MissingExpected*` errors and zero-width recovery tokens.
They depend on the control logic (e.g. that no error is emitted between a speculative token and
its rollback other than through `lex_expected_token`, the delayed `OpenCodeRecursionError`), are
decided per run by `Spec.C09` on implementation dumps and tied by correspondence on the
(errors, token type/offset) projection.

Proved for the model, **every input, both profiles, every ending** (`C09_model_order`): the clause `order` — errors are
listed in non-decreasing source order.  Kernel invariant `KOrd` (`Proofs/Kernel/ErrOrder.lean`: sorted, at or before the
cursor, checkpoint prefix at or before the checkpoint's cursor) is preserved by every primitive except that `emitPrepared`
needs its side condition `PrepOk`; the discipline `ewp` (`Proofs/Model/ErrOrd*.lean`) shows that the control logic emits no
error between `prepError` and `emitPrepared` (the one site: an open-code statement inside a string expression; the
identifier lexer in between cannot emit one — keyword table theorem, mode stack known non-empty, pending-statement stack
never empty).

Likewise `C09_model_last_token`: the clause `last-token` in full — the named token exists **and starts at or before the
error** (`KAnch`, `Proofs/Model/ErrAnch.lean`: the oldest `i + 1` tokens keep their byte offsets under every primitive, and at
the moment an error is reported every token starts at or before the cursor — `SInv.le` of the sortedness discipline).
-/
namespace SasLexer

def C09_statement : Prop := ∀ (cfg : Cfg) (s : List Char), Spec.C09 s (modelDump cfg s) = []

theorem kernel_C09_offsets (cfg : Cfg) {α β} (p : Prog α) (q : Prog β) (s : List Char) :
    ∀ e ∈ (Prog.run cfg q (Prog.run cfg p (Lexer.new cfg s)).2).2.errsR,
      charIdxOfByte s e.byte = some e.char :=
  (kernel_C03 cfg p q s).2

theorem intoDetached_length (cfg : Cfg) (L : Lexer) : L.toksR.length ≤ (L.intoDetached cfg).1.toks.length := by
  unfold Lexer.intoDetached
  dsimp only
  have e : (if L.linesR.isEmpty = true then (L.bufAddLine cfg 0 0).2 else L).toksR = L.toksR := by split <;> rfl
  generalize (if L.linesR.isEmpty = true then (L.bufAddLine cfg 0 0).2 else L) = L1 at e
  rw [← e]
  split
  · split <;> simp_all
  · simp_all

theorem kernel_C09_last_token_exists (cfg : Cfg) {α β} (p : Prog α) (q : Prog β) (s : List Char) :
    ∀ e ∈ (Prog.run cfg q (Prog.run cfg p (Lexer.new cfg s)).2).2.errsR,
      ∀ i, e.lastTok = some i → i < (runThenDetach cfg p q s).1.toks.length := by
  intro e he i hi
  have h := run_KErr cfg q _ (run_KErr cfg p _ (new_KErr cfg s))
  exact Nat.lt_of_lt_of_le (h.errs e he i hi) (intoDetached_length cfg _)

/-- the input that refuted the anchoring on the pinned tree now satisfies every clause -/
example : Spec.C09 "%do %m(a)=1 %to 3;".toList (modelDump ⟨false, false, false⟩ "%do %m(a)=1 %to 3;".toList) = [] := by
  decide +kernel

/-- non-vacuity: an input with a genuine missing-symbol error and its zero-width recovery token -/
example : (modelDump ⟨true, true, false⟩ "%let a 1;".toList).errs.length = 1 ∧
    Spec.C09 "%let a 1;".toList (modelDump ⟨true, true, false⟩ "%let a 1;".toList) = [] := by
  decide +kernel

theorem new_EInv (cfg : Cfg) (s : List Char) : EInv ⟨true, true⟩ (Lexer.new cfg s) := by
  refine ⟨new_KOrd cfg s, fun _ => PrepOk.of_none (by simp [Lexer.new, Lexer.bufAddLine]), fun _ => ?_, ?_⟩
  · simp [Lexer.new, Lexer.bufAddLine]
  · simp [Lexer.new, Lexer.bufAddLine]

theorem monotone_of_sorted : ∀ (l : List ErrInfo), ErrSorted l → Spec.monotone (l.reverse.map (·.byte)) = true := by
  intro l h
  -- ascending pairwise on the reversed list
  have hp : (l.reverse.map (·.byte)).Pairwise (· ≤ ·) := by
    rw [List.pairwise_map, List.pairwise_reverse]
    exact h
  generalize l.reverse.map (·.byte) = xs at hp
  induction xs with
  | nil => rfl
  | cons a t ih =>
    cases t with
    | nil => rfl
    | cons b r =>
      simp only [Spec.monotone, Bool.and_eq_true, decide_eq_true_eq]
      rw [List.pairwise_cons] at hp
      exact ⟨hp.1 b (List.mem_cons_self ..), ih hp.2⟩

/-- every run of the model leaves the error list sorted — whether or not it returns -/
theorem lexProgram_KOrd (cfg : Cfg) (s : List Char) : ErrSorted (lexProgram cfg s).final.errsR := by
  unfold lexProgram
  simp only
  have h0 := new_EInv cfg s
  have hm := mainLoop_eok (cfg := cfg) (budgetMul * (Lexer.new cfg s).srcLen + 64) 0 ((Lexer.new cfg s).srcLen, [Mode.default])
  unfold EOK at hm
  have h1 := ewp_sound cfg _ (fun _ _ => True) ⟨true, true⟩ (Lexer.new cfg s) (hm _ _ (fun _ _ => trivial)) h0
  generalize hR : Prog.run cfg (mainLoop cfg (budgetMul * (Lexer.new cfg s).srcLen + 64) 0 ((Lexer.new cfg s).srcLen, [Mode.default]))
    (Lexer.new cfg s) = R at h1
  obtain ⟨ra, L1⟩ := R
  cases ra with
  | none => exact h1.1.sorted
  | some en =>
    obtain ⟨e, n⟩ := en
    simp only at h1 ⊢
    obtain ⟨σ1, _, hi1⟩ := h1.2 (e, n) rfl
    have hf := finalizeLexing_eok (cfg := cfg)
    unfold EOK at hf
    have h2 := (ewp_sound cfg _ (fun _ _ => True) σ1 L1 (hf _ _ (fun _ _ => trivial)) hi1).1
    by_cases hdet : e = .detected
    · subst hdet
      simp only [beq_self_eq_true, if_true]
      cases L1.panicked with
      | some m => exact h1.1.sorted
      | none => simp only; rw [intoDetached_errs]; exact h1.1.sorted
    · have hb : (e == LoopEnd.detected) = false := by simpa using hdet
      simp only [hb, Bool.false_eq_true, if_false]
      cases (Prog.run cfg (finalizeLexing cfg) L1).2.panicked with
      | some m => exact h2.sorted
      | none => simp only; rw [intoDetached_errs]; exact h2.sorted

/-- **C09, clause `order`, for the model: every input, both profiles, every ending** -/
theorem C09_model_order (cfg : Cfg) (s : List Char) :
    Spec.monotone ((modelDump cfg s).errs.map (·.byte)) = true := by
  unfold modelDump
  split
  · rfl
  · simp only
    split
    · split <;> rfl
    · simp only [dumpOfBuf]
      exact monotone_of_sorted _ (lexProgram_KOrd cfg s)


/-- tokens of the detached buffer with an index below the work buffer's length are the work buffer's -/
theorem intoDetached_getElem? (cfg : Cfg) (L : Lexer) (i : Nat) (hi : i < L.toksR.length) :
    (L.intoDetached cfg).1.toks[i]? = L.toksR.reverse[i]? := by
  unfold Lexer.intoDetached
  have e : (if L.linesR.isEmpty = true then (L.bufAddLine cfg 0 0).2 else L).toksR = L.toksR := by split <;> rfl
  generalize (if L.linesR.isEmpty = true then (L.bufAddLine cfg 0 0).2 else L) = L1 at e
  simp only
  cases hl : L1.toksR with
  | nil => rw [e] at hl; simp [hl] at hi
  | cons a b =>
    simp only
    split
    · rw [e]
    · simp only [List.reverse_cons]
      rw [List.getElem?_append_left (by simp; rw [← e, hl] at hi; simpa using hi)]
      rw [← List.reverse_cons, ← hl, e]

/-- **C09, clause `last-token`, for the model: every input, both profiles, every ending**: the token an error names
exists and starts at or before the error -/
theorem model_error_anchor (cfg : Cfg) (s : List Char) (hend : (lexProgram cfg s).ending ≠ none) :
    ∀ e ∈ (lexProgram cfg s).final.errsR, ∀ i, e.lastTok = some i →
      ∃ t, (lexProgram cfg s).buf.toks[i]? = some t ∧ t.byte ≤ e.byte := by
  unfold lexProgram at hend ⊢
  simp only at hend ⊢
  have h0 := new_SInv cfg s
  have hm := mainLoop_sany (cfg := cfg) (budgetMul * (Lexer.new cfg s).srcLen + 64) 0 ((Lexer.new cfg s).srcLen, [Mode.default])
  unfold SAny at hm
  have h1 := run_anch cfg _ (fun _ _ => True) _ (Lexer.new cfg s) (hm _ _ (fun _ _ => trivial)) h0 (new_KErr cfg s) (new_KAnch cfg s)
  have hk1 := run_KErr cfg (mainLoop cfg (budgetMul * (Lexer.new cfg s).srcLen + 64) 0 ((Lexer.new cfg s).srcLen, [Mode.default]))
    (Lexer.new cfg s) (new_KErr cfg s)
  generalize hR : Prog.run cfg (mainLoop cfg (budgetMul * (Lexer.new cfg s).srcLen + 64) 0 ((Lexer.new cfg s).srcLen, [Mode.default]))
    (Lexer.new cfg s) = R at h1 hk1 hend
  obtain ⟨ra, L1⟩ := R
  have fin : ∀ (L : Lexer), KAnch L → KErr L →
      ∀ e ∈ (L.intoDetached cfg).2.errsR, ∀ i, e.lastTok = some i → ∃ t, (L.intoDetached cfg).1.toks[i]? = some t ∧ t.byte ≤ e.byte := by
    intro L ha hk e he i hi
    rw [intoDetached_errs] at he
    have hlt := hk.errs e he i hi
    rw [intoDetached_getElem? cfg L i hlt]
    have hex : ∃ t, L.toksR.reverse[i]? = some t := by
      refine ⟨L.toksR.reverse[i]'(by simpa using hlt), ?_⟩
      exact List.getElem?_eq_getElem _
    obtain ⟨t, ht⟩ := hex
    exact ⟨t, ht, ha.errs e he i hi t (mem_truncR_of_reverse_getElem? _ _ _ ht)⟩
  cases ra with
  | none => exact absurd rfl hend
  | some en =>
    obtain ⟨e, n⟩ := en
    simp only at h1 hk1 hend ⊢
    obtain ⟨σ1, _, hi1⟩ := h1.2 (e, n) rfl
    by_cases hdet : e = .detected
    · subst hdet
      simp only [beq_self_eq_true, if_true] at hend ⊢
      cases hp : L1.panicked with
      | some m => simp [hp] at hend
      | none => exact fin L1 h1.1 hk1
    · have hb : (e == LoopEnd.detected) = false := by simpa using hdet
      simp only [hb, Bool.false_eq_true, if_false] at hend ⊢
      have hf := finalizeLexing_sany (cfg := cfg)
      unfold SAny at hf
      have h2 := run_anch cfg _ (fun _ _ => True) σ1 L1 (hf _ _ (fun _ _ => trivial)) hi1 hk1 h1.1
      have hk2 := run_KErr cfg (finalizeLexing cfg) L1 hk1
      cases hp : (Prog.run cfg (finalizeLexing cfg) L1).2.panicked with
      | some m => simp [hp] at hend
      | none => exact fin _ h2.1 hk2

/-- clause `last-token` of `Spec.C09` on the model's dump -/
theorem C09_model_last_token (cfg : Cfg) (s : List Char) :
    ((modelDump cfg s).errs.all fun e =>
        match e.lastTok with
        | none => true
        | some i => match (modelDump cfg s).toks[i]? with | some t => t.byte ≤ e.byte | none => false) = true := by
  rw [List.all_eq_true]
  unfold modelDump
  split
  · intro e he; simp [emptyDump] at he
  · simp only
    split
    · split <;> (intro e he; simp [emptyDump] at he)
    · rename_i en hen
      simp only [dumpOfBuf]
      intro e he
      simp only [List.mem_reverse] at he
      cases hl : e.lastTok with
      | none => rfl
      | some i =>
        obtain ⟨t, ht, hb⟩ := model_error_anchor cfg s (by rw [hen]; simp) e he i hl
        simp only [ht]
        exact decide_eq_true hb



/-- what the two theorems say on an input that exercises the prepared error (`%let` inside a string inside `%eval`), a
recovery token, two unterminated strings and a missing parenthesis: five errors, in source order, each naming a token
that starts at or before it -/
example : ((modelDump ⟨true, true, false⟩ "%eval(\"a%let b\" (".toList).errs.map fun e => (e.kind, e.byte, e.lastTok)) =
    [(.OpenCodeRecursionError, 8, some 3), (.MissingExpectedAssign, 14, some 6), (.UnterminatedStringLiteral, 17, some 8),
     (.UnterminatedStringLiteral, 17, some 10), (.MissingExpectedRParen, 17, some 10)] := by decide +kernel

end SasLexer
