import SasLexer.Spec.C08
import SasLexer.Lex.Main
/-!
# C08 — numeric literal payloads equal the value written in the source: theorems

Full-strength statement: `C08_statement`.  Proved (pure, all inputs): `C08_decimal_integer` — for
every text, the model of `try_parse_integer` accepts exactly the maximal digit prefix when its
value fits `u64`, with that exact value (the specification's `decValue`); `C08_hex_integer` —
likewise for `try_parse_hex_integer` with `hexValue`.  The float value is, in model and
specification alike, `ratToF64` of the exact rational (correct rounding to nearest-even is
implemented with exact `Nat` arithmetic; the third-party `lexical` parser is **modelled by this
contract, not verified**, and compared on ≈ 10^5 boundary spellings per run).  Longest-match
disambiguation and the error spans are decided per run by `Spec.C08` on implementation dumps.
-/
namespace SasLexer

def C08_statement : Prop := ∀ (cfg : Cfg) (s : List Char), Spec.C08 s (modelDump cfg s) = []

theorem digitsVal_dec_eq (ds : List Char) (a : Nat) :
    ds.foldl (fun a c => a * 10 + decVal c) a = ds.foldl (fun a c => 10 * a + (c.toNat - '0'.toNat)) a := by
  induction ds generalizing a with
  | nil => rfl
  | cons c cs ih =>
    simp only [List.foldl_cons]
    rw [show a * 10 + decVal c = 10 * a + (c.toNat - '0'.toNat) by simp [decVal, Nat.mul_comm]]
    exact ih _

/-- `try_parse_integer` (model) = the specification's reading of `D+` -/
theorem C08_decimal_integer (s : List Char) :
    tryParseInteger s =
      (let ds := s.takeWhile isAsciiDigit
       if ds.isEmpty then none
       else if Spec.NumLit.decValue ds > u64Max then none
       else some ⟨.IntegerLiteral, .int (Spec.NumLit.decValue ds), ds.length, none⟩) := by
  unfold tryParseInteger Spec.NumLit.decValue digitsVal
  simp only [digitsVal_dec_eq]

theorem char_le_iff' (a b : Char) : a ≤ b ↔ a.toNat ≤ b.toNat := by
  rw [Char.le_def, UInt32.le_iff_toNat_le]; rfl

theorem hexDigitVal_eq (c : Char) (h : isAsciiHexDigit c = true) : hexDigitVal c = Spec.NumLit.hexDigitValue c := by
  unfold hexDigitVal Spec.NumLit.hexDigitValue
  unfold isAsciiHexDigit at h
  by_cases h1 : isAsciiDigit c = true
  · simp [h1]
  · simp only [h1, Bool.false_eq_true, if_false, Bool.false_or] at h ⊢
    by_cases h2 : ('a' ≤ c && c ≤ 'f') = true
    · have h2' := h2
      simp only [Bool.and_eq_true, decide_eq_true_eq, char_le_iff'] at h2'
      have : (97 : Nat) ≤ c.toNat := h2'.1
      simp only [h2, if_true]
      show c.toNat - 87 = c.toNat - 97 + 10
      omega
    · simp only [h2, Bool.false_eq_true, if_false, Bool.false_or] at h ⊢
      have h3' := h
      simp only [Bool.and_eq_true, decide_eq_true_eq, char_le_iff'] at h3'
      have : (65 : Nat) ≤ c.toNat := h3'.1
      show c.toNat - 55 = c.toNat - 65 + 10
      omega

theorem digitsVal_hex_eq (ds : List Char) (hall : ∀ c ∈ ds, isAsciiHexDigit c = true) (a : Nat) :
    ds.foldl (fun a c => a * 16 + hexDigitVal c) a = ds.foldl (fun a c => 16 * a + Spec.NumLit.hexDigitValue c) a := by
  induction ds generalizing a with
  | nil => rfl
  | cons c cs ih =>
    simp only [List.foldl_cons]
    rw [show a * 16 + hexDigitVal c = 16 * a + Spec.NumLit.hexDigitValue c by
      rw [hexDigitVal_eq c (hall c (by simp)), Nat.mul_comm]]
    exact ih (fun x hx => hall x (by simp [hx])) _

theorem takeWhile_all {α} (p : α → Bool) : ∀ (l : List α), ∀ x ∈ l.takeWhile p, p x = true
  | [], x, hx => by simp at hx
  | a :: l, x, hx => by
    rw [List.takeWhile_cons] at hx
    split at hx
    · rename_i ha
      simp only [List.mem_cons] at hx
      rcases hx with rfl | hx
      · exact ha
      · exact takeWhile_all p l x hx
    · simp at hx

/-- `try_parse_hex_integer` (model), integer case = the specification's `hexValue` of the maximal
hex-digit prefix -/
theorem C08_hex_integer (s : List Char) (h : Spec.NumLit.hexValue (s.takeWhile isAsciiHexDigit) ≤ u64Max)
    (hne : (s.takeWhile isAsciiHexDigit).isEmpty = false) :
    tryParseHexInteger s =
      some ⟨.IntegerLiteral, .int (Spec.NumLit.hexValue (s.takeWhile isAsciiHexDigit)),
            (s.takeWhile isAsciiHexDigit).length, none⟩ := by
  unfold tryParseHexInteger
  unfold Spec.NumLit.hexValue at h ⊢
  have e := digitsVal_hex_eq (s.takeWhile isAsciiHexDigit) (takeWhile_all _ _) 0
  simp only [hne, Bool.false_eq_true, if_false, digitsVal, e, h, if_true]

/-- kernel-evaluated boundary values (tests): `u64::MAX`, `u64::MAX + 1`, a halfway case that must
round to even, the largest finite double and the first spelling that rounds to infinity -/
example : Spec.C08 "x=18446744073709551615 18446744073709551616 9007199254740993 1.7976931348623157e308 1.7976931348623159e308 0ffx;".toList
    (modelDump ⟨true, false, false⟩
      "x=18446744073709551615 18446744073709551616 9007199254740993 1.7976931348623157e308 1.7976931348623159e308 0ffx;".toList) = [] := by
  decide +kernel

end SasLexer
