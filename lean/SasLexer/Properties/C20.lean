import SasLexer.Spec.C20
import SasLexer.Msgpack
/-!
# C20 — theorems

(i)   wire: `C20_roundtrip` (the msgpack codec: `decode ∘ encode = id` on everything `encode` can
      represent, with any trailing input), `C20_wire` (decoding what the binding writes, positionally
      into the Python classes' declared fields, gives the Rust values field for field),
      `C20_fields` (both declaration orders, parsed from the sources, coincide; types are compatible),
      `C20_payload_injective` (the untagged `Payload` is injective into Python's union).
(ii)/(iii) enums: `C20_enums` (committed Python modules = what `build.rs` regenerates = the linked
      crate's enums through `build.rs`'s naming rule); `C20_workspace_enums` records that the
      *workspace* crate's `TokenType` is a different enum (one more variant) — the shipped
      `token_type.py` describes the linked, published crate only.
(iv)  `C20_checker_sound`: what a verdict `[]` of the compiled checker `Spec.C20` means.  The checker
      judges the bytes actually returned by the extension module (translation validation; the linked
      lexer is the published crate, not the modelled one, hence no ∀-input theorem here).
-/
namespace SasLexer
open Msgpack Spec

theorem C20_roundtrip (v : MP) (h : v.WF) (rest : List UInt8) :
    decode (encode v ++ rest) = some (v, rest) := decode_encode v h rest

theorem C20_wire (r : RsResult) (h : r.WF) : pyDecode (rsEncode r) = some (rsToPy r) :=
  pyDecode_rsEncode r h

theorem C20_fields :
    (Fields.rsTokenFields = Fields.pyTokenFields
      ∧ Fields.rsErrorFields.map pyNameOf = Fields.pyErrorFields
      ∧ (Fields.linkedPresent = true → Fields.lkTokenFields = Fields.pyTokenFields
          ∧ Fields.lkErrorFields.map pyNameOf = Fields.pyErrorFields))
    ∧ (Fields.rsTokenFieldsTyped.zip Fields.pyTokenFieldsTyped).all (fun (r, p) => tyCompat r.2 p.2) = true
    ∧ (Fields.rsErrorFieldsTyped.zip Fields.pyErrorFieldsTyped).all (fun (r, p) => tyCompat r.2 p.2) = true :=
  ⟨fields_aligned, field_types_aligned.1, field_types_aligned.2.1⟩

theorem C20_payload_injective (p q : RsPayload) (h : rsToPyPayload p = rsToPyPayload q) : p = q :=
  rsToPyPayload_injective p q h

theorem C20_enums :
    (PyEnums.genPresent = true →
      PyEnums.pyTokenType = PyEnums.genTokenType ∧ PyEnums.pyTokenChannel = PyEnums.genTokenChannel
      ∧ PyEnums.pyErrorKind = PyEnums.genErrorKind ∧ PyEnums.committedSha256 = PyEnums.generatedSha256)
    ∧ (PyEnums.linkedPresent = true →
      PyEnums.pyTokenType = tokenTypeOfRust PyEnums.lkTokenTypeChars
      ∧ PyEnums.pyTokenChannel = tokenChannelOfRust PyEnums.lkTokenChannelChars
      ∧ PyEnums.pyErrorKind = errorKindOfRust PyEnums.lkErrorKindChars) :=
  ⟨pyEnum_eq_generated, pyEnum_eq_rsEnum⟩

theorem C20_workspace_enums :
    PyEnums.linkedPresent = true →
      wsTokenChannel = PyEnums.lkTokenChannel ∧ wsErrorKind = PyEnums.lkErrorKind
      ∧ wsTokenType = PyEnums.lkTokenType.flatMap (fun (n, v) =>
          if v < 76 then [(n, v)]
          else if v = 76 then [("MacroVarResolve", 76), ("MacroVarTerm", 77)]
          else [(n, v + 1)])
      ∧ PyEnums.lkTokenType.lookup "MacroVarExpr" = some 76 := wsEnum_vs_linked

theorem clause_nil {n : String} {b : Bool} (h : clause n b = []) : b = true := by
  cases b <;> simp [clause] at h ⊢

/-- a verdict `[]`: the bytes decode (as msgspec would) and the four Python-level clauses hold -/
theorem C20_checker_sound (s : List Char) (bytes : List UInt8) (h : Spec.C20 s bytes = []) :
    ∃ r, pyDecode bytes = some r ∧ c20Tiling s r.tokens = true ∧ c20LinesColumns s r = true
      ∧ c20Enums r = true ∧ c20Payloads r = true := by
  unfold Spec.C20 at h
  split at h
  · simp at h
  · rename_i r hr
    simp only [List.append_eq_nil_iff] at h
    exact ⟨r, hr, clause_nil h.1.1.1, clause_nil h.1.1.2, clause_nil h.1.2, clause_nil h.2⟩

/-- … in particular the token slices tile the source after the optional BOM -/
theorem C20_tiling_slices (s : List Char) (toks : List PyToken) (h : c20Tiling s toks = true) :
    ((toks.map fun t => (t.start.toNat, t.stop.toNat)).map fun (a, b) => pySlice s a b).flatten
      = s.drop (bomChars s) := by
  simp only [c20Tiling, Bool.and_eq_true, beq_iff_eq] at h
  exact h.1.1.2

/-- non-vacuity: what the real extension returned for the empty source and for `a;` passes -/
example : Spec.C20 [] [0x93, 0x91, 0x9a, 0, 0, 0, 0, 0, 1, 0, 1, 0, 0xc0, 0x90, 0xc4, 0] = [] := by
  decide +kernel

end SasLexer
