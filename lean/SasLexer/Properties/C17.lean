import SasLexer.Spec.Pairs
import SasLexer.Lex.Main
import SasLexer.Proofs.Kernel.Shift
import SasLexer.Properties.C03
/-!
# C17 — a leading byte-order mark is transparent: theorems

Full-strength statement: `C17_statement`.

Proved — **kernel, relational, for every control logic** (`kernel_C17`): for every program `p`
(main loop) and `q` (finalisation) over the primitives, every source `s` not starting with a BOM
and every build configuration, the run on `BOM :: s` performs the same operations as the run on
`s` and ends in the state shifted by (3 bytes, 1 char): tokens, line starts and errors have their
byte offsets + 3 and char offsets + 1, and lines, columns, token indices, payloads, the literal
buffer, the mode stack and the returned values are identical.  This rests on `run_shift`
(`Proofs/Kernel/Shift.lean`): no primitive's response contains a position, so a program cannot
tell the two runs apart.

Side condition `RunOk`: the two primitives whose byte arithmetic saturates at zero
(`pendingTextWithPrev`: `cur_token_byte_offset.saturating_sub(1)`; `litResolve back`:
`cur_byte_offset() - back`) must not be executed at an offset below their decrement.  In the
real control logic they run after the opening quote of the literal has been consumed.  The
executable monitor `sideOkRun` evaluates the condition on every explored run
(`C17_model_partial` assumes it; the evidence reports on how many runs it held).
-/
namespace SasLexer

def C17_statement : Prop :=
  ∀ (cfg : Cfg) (s : List Char), s.head? ≠ some BOM → Spec.C17 s (modelDump cfg s) (modelDump cfg (BOM :: s)) = []

def bomShift : Shift := { pre := [BOM], db := 3, dc := 1, hdb := by decide, hdc := rfl }

theorem skipBom_of_ne {s : List Char} (h : s.head? ≠ some BOM) : Lexer.skipBom (Cursor.new s) = Cursor.new s := by
  unfold Lexer.skipBom Cursor.new
  cases s with
  | nil => rfl
  | cons c r =>
    have : c ≠ BOM := by intro hc; apply h; simp [hc]
    simp [this]

theorem new_bom (cfg : Cfg) (s : List Char) (h : s.head? ≠ some BOM) :
    Lexer.new cfg (BOM :: s) = shiftL bomShift (Lexer.new cfg s) := by
  have hsz : BOM.utf8Size = 3 := by decide
  have e1 : Lexer.skipBom (Cursor.new (BOM :: s)) = { rest := s, charOff := 1, remBytes := utf8Len s } := by
    simp [Lexer.skipBom, Cursor.new, Cursor.advance, utf8Len, hsz]
  unfold Lexer.new
  rw [e1, skipBom_of_ne h]
  have hl : utf8Len (BOM :: s) = utf8Len s + 3 := by simp [utf8Len, hsz, Nat.add_comm]
  simp only [hl, Cursor.new, Lexer.bufAddLine, shiftL, bomShift, Shift.cur, Shift.pos, Shift.line, Shift.lit,
    List.map_nil, List.map_cons, Option.map_none, Nat.add_sub_cancel_left, Nat.sub_self, Nat.zero_add,
    List.cons_append, List.nil_append]
  have d2 : decide (0 ≤ utf8Len s) = true := by simp
  have a1 : utf8Len s + 3 - utf8Len s = 3 := by omega
  have d3 : decide (3 ≤ utf8Len s + 3) = true := by simp
  simp only [d2, a1, d3]

/-- detached buffer of the shifted state = shifted detached buffer -/
def shiftD (σ : Shift) (b : DBuf) : DBuf :=
  { lines := b.lines.map σ.line, toks := b.toks.map σ.tok, lits := b.lits }

theorem intoDetached_shift (σ : Shift) (cfg : Cfg) (L : Lexer) (hn : L.linesR ≠ []) :
    (shiftL σ L).intoDetached cfg = (shiftD σ (L.intoDetached cfg).1, shiftL σ (L.intoDetached cfg).2) := by
  unfold Lexer.intoDetached
  have e1 : (shiftL σ L).linesR.isEmpty = false := by
    cases hl : L.linesR with
    | nil => exact absurd hl hn
    | cons a r => simp [shiftL, hl]
  have e2 : L.linesR.isEmpty = false := by
    cases hl : L.linesR with
    | nil => exact absurd hl hn
    | cons a r => rfl
  simp only [e1, e2, Bool.false_eq_true, if_false]
  have hlen : (σ.pre ++ L.src).length = L.src.length + σ.dc := by rw [List.length_append, σ.hdc, Nat.add_comm]
  cases hts : L.toksR with
  | nil =>
    simp only [shiftL, hts, List.map_nil, shiftD, List.reverse_cons, List.reverse_nil, List.nil_append, List.map_cons,
      List.length_map, Shift.tok, hlen, List.map_reverse]
  | cons t ts =>
    have ety : (σ.tok t).ty = t.ty := rfl
    simp only [shiftL, hts, List.map_cons, ety]
    by_cases hE : t.ty = .EOF
    · simp only [hE, if_true, shiftD, List.map_reverse, List.map_cons, hts, shiftL]
    · simp only [hE, if_false, shiftD, List.map_reverse, List.map_cons, hts, shiftL, List.length_map, Shift.tok, hlen,
        List.reverse_cons, List.map_append, List.map_nil]

/-- **Kernel theorem (C17), every control logic.** -/
theorem kernel_C17 (cfg : Cfg) {α β} (p : Prog α) (q : Prog β) (s : List Char) (h : s.head? ≠ some BOM)
    (hp : RunOk cfg p (Lexer.new cfg s)) (hq : RunOk cfg q (Prog.run cfg p (Lexer.new cfg s)).2) :
    (runThenDetach cfg p q (BOM :: s)).1 = shiftD bomShift (runThenDetach cfg p q s).1 ∧
    (runThenDetach cfg p q (BOM :: s)).2 = shiftL bomShift (runThenDetach cfg p q s).2 ∧
    (Prog.run cfg p (Lexer.new cfg (BOM :: s))).1 = (Prog.run cfg p (Lexer.new cfg s)).1 := by
  have k0 := new_KPos cfg s
  have n0 := new_KLn cfg s
  have r1 := run_shift bomShift cfg p (Lexer.new cfg s) k0 n0 hp
  have k1 := run_KPos cfg p _ k0
  have n1 := run_KLn cfg p _ n0
  have r2 := run_shift bomShift cfg q _ k1 n1 hq
  have n2 := run_KLn cfg q _ n1
  unfold runThenDetach
  dsimp only
  rw [new_bom cfg s h, r1]
  dsimp only
  rw [r2]
  dsimp only
  rw [intoDetached_shift bomShift cfg _ n2.ne]
  exact ⟨rfl, rfl, rfl⟩

end SasLexer

namespace SasLexer

/-! ## executable monitor of the side condition, and the model-level statement -/

def sideOkB (o : Op) (L : Lexer) : Bool :=
  match o with
  | .pendingTextWithPrev => decide (1 ≤ L.tok.byte)
  | .litResolve back => decide (back ≤ L.curByte)
  | _ => true

theorem sideOkB_iff (o : Op) (L : Lexer) : sideOkB o L = true ↔ SideOk o L := by
  cases o <;> simp [sideOkB, SideOk]

/-- runs the program like `Prog.run` and reports whether every executed primitive met its side
condition -/
def sideOkRun (cfg : Cfg) {α} : Prog α → Lexer → Bool
  | .ret _, _ => true
  | .op o k, L =>
    sideOkB o L &&
      (match (step cfg o L).2.panicked with
       | some _ => true
       | none => sideOkRun cfg (k (step cfg o L).1) (step cfg o L).2)

theorem sideOkRun_sound (cfg : Cfg) {α} (p : Prog α) : ∀ L, sideOkRun cfg p L = true → RunOk cfg p L := by
  induction p with
  | ret a => intro L _; trivial
  | op o k ih =>
    intro L h
    unfold sideOkRun at h
    simp only [Bool.and_eq_true] at h
    refine ⟨(sideOkB_iff o L).mp h.1, ?_⟩
    intro hp
    have := h.2
    rw [hp] at this
    exact ih _ _ this

/-- the side condition on the two programs of the modelled lexer for source `s` -/
def lexSideOk (cfg : Cfg) (s : List Char) : Bool :=
  let L0 := Lexer.new cfg s
  let p := mainLoop cfg (budgetMul * L0.srcLen + 64) 0 (L0.srcLen, [.default])
  sideOkRun cfg p L0 && sideOkRun cfg (finalizeLexing cfg) (Prog.run cfg p L0).2

/-- **C17 for the modelled control logic, partial**: for the main-loop and finalisation programs
that the model runs on `s` (fixed fuel and initial detector memory), the run on `BOM :: s` of the
*same* two programs is the shifted run — whenever the monitored side condition holds on `s`.
(What is missing for `C17_statement`: the model picks fuel `8·len + 64` and the initial
`last_state` from the source length, which differ by the BOM's 3 bytes between the two sources;
that the result does not depend on them is the termination argument of C01.) -/
theorem C17_model_partial (cfg : Cfg) (s : List Char) (h : s.head? ≠ some BOM) (hok : lexSideOk cfg s = true) :
    let L0 := Lexer.new cfg s
    let p := mainLoop cfg (budgetMul * L0.srcLen + 64) 0 (L0.srcLen, [.default])
    (runThenDetach cfg p (finalizeLexing cfg) (BOM :: s)).1
      = shiftD bomShift (runThenDetach cfg p (finalizeLexing cfg) s).1 := by
  intro L0 p
  unfold lexSideOk at hok
  simp only [Bool.and_eq_true] at hok
  exact (kernel_C17 cfg p (finalizeLexing cfg) s h (sideOkRun_sound cfg p _ hok.1)
    (sideOkRun_sound cfg _ _ hok.2)).1

/-- non-vacuity: the side condition holds on an input that exercises both saturating primitives
(a double-quoted hex literal and an escaped single-quoted literal) -/
example : lexSideOk ⟨true, true, false⟩ "x=\"41\"x 'a''b' %str(%');".toList = true := by decide +kernel

end SasLexer
