import SasLexer.Spec.Pairs
import SasLexer.Lex.Main
/-!
# C17 — a leading byte-order mark is transparent

Full-strength statement: `C17_statement`.
-/
namespace SasLexer

def C17_statement : Prop :=
  ∀ (cfg : Cfg) (s : List Char), s.head? ≠ some BOM → Spec.C17 s (modelDump cfg s) (modelDump cfg (BOM :: s)) = []

example : Spec.C17 "a='é\n';\n%m(x)".toList (modelDump ⟨true, true, false⟩ "a='é\n';\n%m(x)".toList)
    (modelDump ⟨true, true, false⟩ (BOM :: "a='é\n';\n%m(x)".toList)) = [] := by
  decide +kernel

end SasLexer
