import SasLexer.Spec.Pairs
import SasLexer.Lex.Main
/-!
# C15 — lexing is compositional at closed statement boundaries

Full-strength statement: `C15_statement`.
-/
namespace SasLexer

def C15_statement : Prop :=
  ∀ (cfg : Cfg) (a b : List Char),
    Spec.C15 a b (modelDump cfg a) (modelDump cfg b) (modelDump cfg (a ++ b)) = []

example : Spec.closedPrefix "x='é';\n%let a=1;".toList (modelDump ⟨true, true, false⟩ "x='é';\n%let a=1;".toList) = true ∧
    Spec.C15 "x='é';\n%let a=1;".toList "%m(\"a\"\"b\") y\n(;".toList
      (modelDump ⟨true, true, false⟩ "x='é';\n%let a=1;".toList) (modelDump ⟨true, true, false⟩ "%m(\"a\"\"b\") y\n(;".toList)
      (modelDump ⟨true, true, false⟩ ("x='é';\n%let a=1;".toList ++ "%m(\"a\"\"b\") y\n(;".toList)) = [] := by
  decide +kernel

end SasLexer
