import SasLexer.Spec.C11
import SasLexer.Lex.Main
/-!
# C11 — macro-free open code is tokenized according to the SAS lexical grammar

Full-strength statement: `C11_statement`: for every macro-free source the (type, channel, offset)
view of the modelled lexer's tokens and the (kind, offset) view of its errors equal the reference
lexer `Spec.refLex` (DESIGN.md §7.2: a maximal-munch function with two booleans, no mode stack,
no checkpoint).  The refinement proof by simulation (mode stack stays `[Default]` /
`[Default, StringExpr]`; one main-loop iteration = one reference step) is not completed; the
statement is decided per run by `Spec.C11` on implementation dumps of macro-free streams and the
model is tied by correspondence.  Kernel-evaluated instances below are tests.
-/
namespace SasLexer

def C11_statement : Prop :=
  ∀ (cfg : Cfg) (s : List Char), Spec.macroFree s = true → Spec.C11 s (modelDump cfg s) = []

/-- the inputs that deviated from the grammar on the pinned tree (pending flag after a datalines
block, hex string with a sign, unterminated datalines4) agree with the reference lexer now -/
example : Spec.C11 "data a; datalines;\n1\n;\n* c;".toList (modelDump ⟨true, false, false⟩ "data a; datalines;\n1\n;\n* c;".toList) = []
    ∧ Spec.C11 "x='+1'x;".toList (modelDump ⟨true, false, false⟩ "x='+1'x;".toList) = []
    ∧ Spec.C11 ";datalines4;\nx\n;\ny".toList (modelDump ⟨true, false, false⟩ ";datalines4;\nx\n;\ny".toList) = [] := by
  decide +kernel

example : Spec.macroFree "x = 'a'n ** 1e5 <> $f5.2 /* c */ \"q\"\"r\"dt; *s; datalines4;\nz;;\n;;;;".toList = true ∧
    Spec.C11 "x = 'a'n ** 1e5 <> $f5.2 /* c */ \"q\"\"r\"dt; *s; datalines4;\nz;;\n;;;;".toList
      (modelDump ⟨true, true, false⟩ "x = 'a'n ** 1e5 <> $f5.2 /* c */ \"q\"\"r\"dt; *s; datalines4;\nz;;\n;;;;".toList) = [] := by
  decide +kernel

end SasLexer
