import SasLexer.Spec.Basic
import SasLexer.Lex.Main
import SasLexer.Proofs.Pure.Resolved
/-!
# C05 — the bulk resolved view equals the per-token accessors: theorems

* `C05_pure` (proved, all buffers): for **every** well-formed detached buffer (`DBuf.WF`:
  start offsets never decrease, every token's line exists and begins at or before the token,
  line starts sorted, fewer than 2^32 lines) `into_resolved_token_vec` succeeds, has exactly one
  row per token, and row `k` is what the accessor methods return for token `k`.  The model keeps
  the two end-line formulas of `buffer.rs` as written, with `u32` arithmetic in both overflow
  regimes, so this is a statement about the code's arithmetic.
* `C05_wf_needed` (proved): the hypothesis is necessary — a concrete ill-formed buffer on which
  the two views differ.
* Full statement `C05_statement`: `Spec.C05` on the dump of every source.  The remaining link —
  every buffer the lexer produces is `WF` — follows from the kernel invariants (`KMono`, `KPos`)
  for the monotonicity part; line-table well-formedness is decided per run (`Spec.C05` +
  `Spec.C04` on implementation dumps; model/implementation correspondence on both views;
  `buffer-script` correspondence of the accessor code on arbitrary buffers).
-/
namespace SasLexer

def C05_statement : Prop := ∀ (cfg : Cfg) (s : List Char), Spec.C05 s (modelDump cfg s) = []

theorem C05_pure (cfg : Cfg) (b : DBuf) (h : b.WF) (hne : b.toks ≠ []) :
    ∃ rows, b.resolved cfg = .ok rows ∧ rows.length = b.toks.length ∧
      ∀ k r, rows[k]? = some r → b.accessorRow cfg k = .ok r :=
  DBuf.resolved_eq_accessors cfg b h hne

/-- an ill-formed buffer (second token starts before its line start) on which the end line of
the first token differs between the two views: accessor says 1, bulk view says 2 -/
theorem C05_wf_needed :
    let b : DBuf := { lines := [⟨0, 0⟩, ⟨5, 5⟩],
                      toks := [⟨.DEFAULT, .WS, 0, 0, 0, .none⟩, ⟨.DEFAULT, .EOF, 3, 3, 1, .none⟩], lits := [] }
    (b.accessorRow ⟨false, false, false⟩ 0).toOption.map (·.endLine) = some 1 ∧
    ((b.resolved ⟨false, false, false⟩).toOption.bind (·.head?)).map (·.endLine) = some 2 := by
  decide

/-- non-vacuity: the buffer of a multi-line input with an empty token at a line start -/
example : Spec.C05 "a;\n%let x 1;\n".toList (modelDump ⟨true, false, false⟩ "a;\n%let x 1;\n".toList) = [] := by
  decide +kernel

end SasLexer
