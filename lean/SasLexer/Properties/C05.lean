import SasLexer.Spec.Basic
import SasLexer.Lex.Main
import SasLexer.Proofs.Pure.Resolved
import SasLexer.Properties.C04
/-!
# C05 — the bulk resolved view equals the per-token accessors: theorems

* `C05_pure` (proved, all buffers): for **every** well-formed detached buffer (`DBuf.WF`:
  start offsets never decrease, every token's line exists and begins at or before the token,
  line starts sorted, fewer than 2^32 lines) `into_resolved_token_vec` succeeds, has exactly one
  row per token, and row `k` is what the accessor methods return for token `k`.  The model keeps
  the two end-line formulas of `buffer.rs` as written, with `u32` arithmetic in both overflow
  regimes, so this is a statement about the code's arithmetic.
* `C05_wf_needed` (proved): the hypothesis is necessary — a concrete ill-formed buffer on which
  the two views differ.
* `C05_model` (proved, every input): the buffers of the **modelled lexer** are well-formed — the line-table
  part is the model theorem `model_lineWF` (scanning discipline, `Proofs/Model/Disc*.lean`), monotonicity the
  kernel theorem `run_KMono` — so for every source on which the model returns at end of input the bulk view has
  one row per token and row `k` is what the accessors return for token `k` (debug profile; release under the
  monitored hypothesis that token starts never decrease).
* Full statement `C05_statement`: `Spec.C05` on the dump of every source.  For the implementation the link is
  decided per run (`Spec.C05` + `Spec.C04` on implementation dumps; model/implementation correspondence on both
  views; `buffer-script` correspondence of the accessor code on arbitrary buffers).
-/
namespace SasLexer

def C05_statement : Prop := ∀ (cfg : Cfg) (s : List Char), Spec.C05 s (modelDump cfg s) = []

theorem C05_pure (cfg : Cfg) (b : DBuf) (h : b.WF) (hne : b.toks ≠ []) :
    ∃ rows, b.resolved cfg = .ok rows ∧ rows.length = b.toks.length ∧
      ∀ k r, rows[k]? = some r → b.accessorRow cfg k = .ok r :=
  DBuf.resolved_eq_accessors cfg b h hne

/-- an ill-formed buffer (second token starts before its line start) on which the end line of
the first token differs between the two views: accessor says 1, bulk view says 2 -/
theorem C05_wf_needed :
    let b : DBuf := { lines := [⟨0, 0⟩, ⟨5, 5⟩],
                      toks := [⟨.DEFAULT, .WS, 0, 0, 0, .none⟩, ⟨.DEFAULT, .EOF, 3, 3, 1, .none⟩], lits := [] }
    (b.accessorRow ⟨false, false, false⟩ 0).toOption.map (·.endLine) = some 1 ∧
    ((b.resolved ⟨false, false, false⟩).toOption.bind (·.head?)).map (·.endLine) = some 2 := by
  decide

/-- **C05 for the modelled lexer, every input**: both views agree on every buffer the model produces -/
theorem C05_model_of_mono (cfg : Cfg) (s : List Char) (hend : (lexProgram cfg s).ending = some .eof)
    (hmono : TokMono (lexProgram cfg s).buf) (hsmall : (lineStarts s).length < two32) :
    ∃ rows, (lexProgram cfg s).buf.resolved cfg = .ok rows ∧ rows.length = (lexProgram cfg s).buf.toks.length ∧
      ∀ k r, rows[k]? = some r → (lexProgram cfg s).buf.accessorRow cfg k = .ok r := by
  obtain ⟨pre, e, htoks, _⟩ := model_single_eof cfg s hend
  exact C05_pure cfg _ (model_lineWF cfg s hend hmono hsmall).wf (by rw [htoks]; simp)

theorem C05_model (cfg : Cfg) (s : List Char) (hend : (lexProgram cfg s).ending = some .eof)
    (hsmall : (lineStarts s).length < two32) :
    ∃ rows, (lexProgram cfg s).buf.resolved cfg = .ok rows ∧ rows.length = (lexProgram cfg s).buf.toks.length ∧
      ∀ k r, rows[k]? = some r → (lexProgram cfg s).buf.accessorRow cfg k = .ok r :=
  C05_model_of_mono cfg s hend (model_tokMono cfg s hend) hsmall

/-- non-vacuity: the buffer of a multi-line input with an empty token at a line start -/
example : Spec.C05 "a;\n%let x 1;\n".toList (modelDump ⟨true, false, false⟩ "a;\n%let x 1;\n".toList) = [] := by
  decide +kernel

end SasLexer
