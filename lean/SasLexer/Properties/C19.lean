import SasLexer.Spec.Pairs
import SasLexer.Lex.Main
import SasLexer.Proofs.Kernel.Profile
/-!
# C19 — the result is a function of the source text alone: theorems

(a) debug vs release — `kernel_C19_debug_release`: for **every** program over the primitives,
if the debug run does not stop at an assertion the release run of the same program returns the
same value and the same state (debug assertions are pure observers of the primitives).
The hand-modelled control logic additionally contains debug-only code (`debug_assert!`s whose
condition calls `self.mode()`, the loop detector); that these do not change the result is
decided per run (`Spec.C19` on the dev/release dump pair of the implementation, and
model/implementation correspondence in both profiles).
(b) stable vs nightly — both `add_token` paths push the same element; the model has one
definition for both (`Lexer.bufAddToken` ignores `cfg.nightly`): `kernel_C19_nightly`.
(c),(d) threads and history: the model is a pure function, so the statement is true of the
model by construction and says nothing about the runtime; these clauses are labelled partial —
decided by the concurrent / repeated differential runs of the harness (`harness threads`).
-/
namespace SasLexer

theorem kernel_C19_debug_release (c1 c2 : Cfg) (hf : c1.macroSep = c2.macroSep) (hrel : c2.debug = false)
    {α} (p : Prog α) (s : List Char) :
    (Prog.run c1 p (Lexer.new c1 s)).2.panicked = none →
    (Prog.run c1 p (Lexer.new c1 s)).1 = (Prog.run c2 p (Lexer.new c2 s)).1 ∧
    eraseP (Prog.run c1 p (Lexer.new c1 s)).2 = eraseP (Prog.run c2 p (Lexer.new c2 s)).2 ∧
    (Prog.run c2 p (Lexer.new c2 s)).2.panicked = none := by
  intro h
  refine run_profile c1 c2 hf hrel p _ _ rfl ?_ h
  simp [Lexer.new, Lexer.bufAddLine, hrel]

/-- the toolchain flag is not read by any primitive -/
theorem kernel_C19_nightly (c : Cfg) (o : Op) (L : Lexer) :
    step { c with nightly := true } o L = step { c with nightly := false } o L := by
  cases o <;> rfl

end SasLexer
