import SasLexer.Proofs.Tables
/-!
# C10 — paired and grouped tokens are balanced: theorems

Full-strength statement: `C10_statement`.  Proved (table theorem over all 57 argument-taking
built-ins, both feature configurations): `C10_builtins_expect_lparen` — after the keyword token
the model has `WsOrCStyleCommentOnly, ExpectSymbol(LPAREN, channel of the keyword)` on top of
the mode stack, and (kernel) `lex_expected_token` always emits its token; so the keyword is
followed, after hidden tokens, by `(` on its channel provided nothing is pushed above them
(which is what the `fix:` for `%do %builtin…` restored).  String-expression balance relies on
`finalize_lexing` closing every `StringExpr` mode (restored by the `fix:` for the extra pop).
Both are decided per run by `Spec.C10` on implementation dumps of every truncation stream.
-/
namespace SasLexer

def C10_statement : Prop := ∀ (cfg : Cfg) (s : List Char), Spec.C10 s (modelDump cfg s) = []

theorem C10_builtins_expect_lparen :
    ∀ ty ∈ Spec.C10.argTakingBuiltins,
      ∃ ch rest, tokenAfterKeyword relCfg ty = some (ty, ch) ∧
        modesAfterKeyword relCfg ty = .wsOrCStyleCommentOnly :: .expectSymbol .LPAREN ch :: rest := by
  intro ty hty
  have h := builtins_expect_lparen
  rw [List.all_eq_true] at h
  have := h ty hty
  split at this
  · rename_i ty' ch ch' rest htok hmodes
    simp only [Bool.and_eq_true, beq_iff_eq] at this
    obtain ⟨rfl, rfl⟩ := this
    exact ⟨ch, rest, htok, hmodes⟩
  · exact absurd this (by simp)

/-- the inputs that were unbalanced on the pinned tree are balanced now -/
example : Spec.C10 "\"%eval(1".toList (modelDump ⟨false, false, false⟩ "\"%eval(1".toList) = [] := by decide +kernel
example : Spec.C10 "%do%scan(a,1)=1 %to 2;".toList (modelDump ⟨true, false, false⟩ "%do%scan(a,1)=1 %to 2;".toList) = [] := by
  decide +kernel
/-- F12 (fixed by 5301e1d): the `)` owed for the open nesting level under an unterminated string is supplied -/
example : Spec.C10 "%eval((1+\"".toList (modelDump ⟨false, false, false⟩ "%eval((1+\"".toList) = [] := by decide +kernel
example : ((modelDump ⟨true, false, false⟩ "%m(a=(\"".toList).toks.map (·.ty)) =
    [.MacroIdentifier, .LPAREN, .MacroString, .ASSIGN, .MacroString, .StringLiteral, .RPAREN, .RPAREN, .EOF] := by decide +kernel

end SasLexer
