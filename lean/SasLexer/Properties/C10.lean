import SasLexer.Proofs.Tables
import SasLexer.Proofs.Model.FinClosers
import SasLexer.Properties.C03
/-!
# C10 — paired and grouped tokens are balanced: theorems

Full-strength statement: `C10_statement`.  Proved (table theorem over all 57 argument-taking
built-ins, both feature configurations): `C10_builtins_expect_lparen` — after the keyword token
the model has `WsOrCStyleCommentOnly, ExpectSymbol(LPAREN, channel of the keyword)` on top of
the mode stack, and (kernel) `lex_expected_token` always emits its token; so the keyword is
followed, after hidden tokens, by `(` on its channel provided nothing is pushed above them
(which is what the `fix:` for `%do %builtin…` restored).  String-expression balance relies on
`finalize_lexing` closing every `StringExpr` mode (restored by the `fix:` for the extra pop).
Both are decided per run by `Spec.C10` on implementation dumps of every truncation stream.

Proved for the model, **every input, both profiles** (`C10_model_closers`): the clause `closers-supplied` —
"missing closers are supplied as virtual tokens and reported".  `Proofs/Model/Fin.lean` gives a third,
deterministic abstract semantics `fwp` over the projection (type, channel, byte of every token; error kinds; mode
stack; pending-token and cursor byte) with its soundness theorem `fwp_sound`; `Proofs/Model/FinClosers.lean`
evaluates `finalize_lexing` in it for every mode stack (`finalizeMode_fwp`, `finalizeLoop_fwp`, by induction on the
stack) and relates the result to the specification's own computation of what is owed (`Rep.step`):
`finalizeLexing_closers`.  The theorem became provable with the `fix:` that removed the second pop under an open
string expression (F12, 5301e1d); before it the model, like the code, lost the `)` owed for `%eval((1+"`.
-/
namespace SasLexer

def C10_statement : Prop := ∀ (cfg : Cfg) (s : List Char), Spec.C10 s (modelDump cfg s) = []

theorem C10_builtins_expect_lparen :
    ∀ ty ∈ Spec.C10.argTakingBuiltins,
      ∃ ch rest, tokenAfterKeyword relCfg ty = some (ty, ch) ∧
        modesAfterKeyword relCfg ty = .wsOrCStyleCommentOnly :: .expectSymbol .LPAREN ch :: rest := by
  intro ty hty
  have h := builtins_expect_lparen
  rw [List.all_eq_true] at h
  have := h ty hty
  split at this
  · rename_i ty' ch ch' rest htok hmodes
    simp only [Bool.and_eq_true, beq_iff_eq] at this
    obtain ⟨rfl, rfl⟩ := this
    exact ⟨ch, rest, htok, hmodes⟩
  · exact absurd this (by simp)

/-- the inputs that were unbalanced on the pinned tree are balanced now -/
example : Spec.C10 "\"%eval(1".toList (modelDump ⟨false, false, false⟩ "\"%eval(1".toList) = [] := by decide +kernel
example : Spec.C10 "%do%scan(a,1)=1 %to 2;".toList (modelDump ⟨true, false, false⟩ "%do%scan(a,1)=1 %to 2;".toList) = [] := by
  decide +kernel
/-- F12 (fixed by 5301e1d): the `)` owed for the open nesting level under an unterminated string is supplied -/
example : Spec.C10 "%eval((1+\"".toList (modelDump ⟨false, false, false⟩ "%eval((1+\"".toList) = [] := by decide +kernel
example : ((modelDump ⟨true, false, false⟩ "%m(a=(\"".toList).toks.map (·.ty)) =
    [.MacroIdentifier, .LPAREN, .MacroString, .ASSIGN, .MacroString, .StringLiteral, .RPAREN, .RPAREN, .EOF] := by decide +kernel


section closers
open Spec.C10
theorem TokenType.ofNat?_toNat (t : TokenType) : TokenType.ofNat? t.toNat = some t := by
  cases t <;> decide +kernel

theorem intoDetached_toks_of_eof (cfg : Cfg) (L : Lexer) (h : ∃ t ts, L.toksR = t :: ts ∧ t.ty = .EOF) :
    (L.intoDetached cfg).1.toks = L.toksR.reverse := by
  obtain ⟨t, ts, hts, hty⟩ := h
  unfold Lexer.intoDetached
  have e : (if L.linesR.isEmpty = true then (L.bufAddLine cfg 0 0).2 else L).toksR = L.toksR := by split <;> rfl
  generalize (if L.linesR.isEmpty = true then (L.bufAddLine cfg 0 0).2 else L) = L1 at e
  simp only
  rw [hts] at e
  simp only [e, hty, if_true, hts]

theorem run_unit_some (cfg : Cfg) (p : Prog Unit) (L : Lexer) (h : (Prog.run cfg p L).2.panicked = none) :
    (Prog.run cfg p L).1 = some () := by
  cases hr : (Prog.run cfg p L).1 with
  | none => exact absurd h (run_none_panicked cfg p L hr)
  | some a => rfl

theorem lexProgram_closers (cfg : Cfg) (s : List Char) :
    match (lexProgram cfg s).ending with
    | some .eof => ∃ sn, (lexProgram cfg s).snap = some sn ∧
        closersOfSnap sn (lexProgram cfg s).buf.toks (lexProgram cfg s).final.errsR.reverse = true
    | some .detected => (lexProgram cfg s).snap = none
    | _ => True := by
  unfold lexProgram
  simp only
  generalize hR : Prog.run cfg (mainLoop cfg (budgetMul * (Lexer.new cfg s).srcLen + 64) 0 ((Lexer.new cfg s).srcLen, [Mode.default]))
    (Lexer.new cfg s) = R
  obtain ⟨ra, L1⟩ := R
  cases ra with
  | none => trivial
  | some en =>
    obtain ⟨e, n⟩ := en
    simp only
    by_cases hdet : e = .detected
    · subst hdet
      simp only [beq_self_eq_true, if_true]
      cases L1.panicked <;> first | trivial | rfl
    · have hb : (e == LoopEnd.detected) = false := by simpa using hdet
      simp only [hb, Bool.false_eq_true, if_false]
      cases hp2 : (Prog.run cfg (finalizeLexing cfg) L1).2.panicked with
      | some m => trivial
      | none =>
        simp only
        cases e with
        | detected => exact absurd rfl hdet
        | budget => trivial
        | eof =>
          simp only
          refine ⟨_, rfl, ?_⟩
          have h1 := run_unit_some cfg _ L1 hp2
          obtain ⟨⟨c, rest, hhead⟩, hcl⟩ := finalizeLexing_closers cfg L1 h1
          generalize hL2 : (Prog.run cfg (finalizeLexing cfg) L1).2 = L2 at hhead hcl
          have heof : ∃ t ts, L2.toksR = t :: ts ∧ t.ty = .EOF := by
            simp only [FS.of] at hhead
            cases hl : L2.toksR with
            | nil => simp [hl] at hhead
            | cons t ts => simp [hl] at hhead; exact ⟨t, ts, rfl, hhead.1.1⟩
          simp only [closersOfSnap, snapshotOf]
          rw [intoDetached_toks_of_eof cfg L2 heof, intoDetached_errs]
          simp only [List.reverse_reverse]
          have e1 : (Option.map (fun x => x.ty.toNat) L1.toksR.head?).bind TokenType.ofNat? =
              Option.map (fun x => x.ty) L1.toksR.head? := by
            cases hl : L1.toksR with
            | nil => rfl
            | cons t ts => simp [TokenType.ofNat?_toNat]
          rw [e1]
          simpa [FS.of] using hcl

theorem closersSupplied_emptyDump (o : Outcome) : closersSupplied (emptyDump o) = true := by
  cases o <;> rfl

/-- **C10, clause `closers-supplied`, for the model: every input, both profiles.** -/
theorem C10_model_closers (cfg : Cfg) (s : List Char) : closersSupplied (modelDump cfg s) = true := by
  unfold modelDump
  split
  · exact closersSupplied_emptyDump _
  · have h := lexProgram_closers cfg s
    generalize lexProgram cfg s = r at h
    simp only
    cases he : r.ending with
    | none => simp only; split <;> exact closersSupplied_emptyDump _
    | some e =>
      rw [he] at h
      simp only
      cases e with
      | budget => simp only [closersSupplied, dumpOfBuf, beq_self_eq_true, if_true]
      | detected => simp only at h; simp only [closersSupplied, dumpOfBuf, h]; split <;> simp_all
      | eof =>
        simp only at h
        obtain ⟨sn, hsn, hc⟩ := h
        have hb2 : (LoopEnd.eof == LoopEnd.budget) = false := rfl
        simp only [closersSupplied, dumpOfBuf, hsn, hb2, Bool.false_eq_true, if_false]
        exact hc

end closers

end SasLexer
