import SasLexer.Spec.C03
import SasLexer.Lex.Main
import SasLexer.Proofs.Kernel.Src
/-!
# C03 — theorems

`kernel_C03`: for **every** control logic (any main-loop program `p`, any finalisation
program `q`), every source text and both build profiles, all token and error offsets of the
detached result are position pairs of the source.  `C03_model` instantiates it for the
hand-modelled control logic (`lexProgram`) and states it with the executable predicate
`Spec.C03` that also judges the implementation's dumps.
-/
namespace SasLexer

theorem utf8Size_pos' (c : Char) : 0 < c.utf8Size := Char.utf8Size_pos c

theorem charIdxOfByte_append (pre suf : List Char) :
    charIdxOfByte (pre ++ suf) (utf8Len pre) = some pre.length := by
  induction pre with
  | nil => simp [utf8Len, charIdxOfByte]
  | cons c cs ih =>
    have hp := utf8Size_pos' c
    simp only [List.cons_append, utf8Len, List.length_cons]
    obtain ⟨k, hk⟩ : ∃ k, c.utf8Size + utf8Len cs = k + 1 := ⟨c.utf8Size + utf8Len cs - 1, by omega⟩
    rw [hk, charIdxOfByte]
    have h1 : c.utf8Size ≤ k + 1 := by omega
    have h2 : k + 1 - c.utf8Size = utf8Len cs := by omega
    simp [h1, h2, ih]

theorem charIdxOfByte_of_posPair {s : List Char} {b c : Nat} (h : PosPair s b c) :
    charIdxOfByte s b = some c := by
  obtain ⟨pre, suf, rfl, rfl, rfl⟩ := h
  exact charIdxOfByte_append pre suf

/-- the generic result of a lexer run: main program, finalisation program, detach -/
def runThenDetach (cfg : Cfg) {α β} (p : Prog α) (q : Prog β) (s : List Char) : DBuf × Lexer :=
  let L1 := (Prog.run cfg p (Lexer.new cfg s)).2
  let L2 := (Prog.run cfg q L1).2
  L2.intoDetached cfg

/-- **Kernel theorem (C03), for every control logic.** -/
theorem kernel_C03 (cfg : Cfg) {α β} (p : Prog α) (q : Prog β) (s : List Char) :
    (∀ t ∈ (runThenDetach cfg p q s).1.toks, charIdxOfByte s t.byte = some t.start) ∧
    (∀ e ∈ (Prog.run cfg q (Prog.run cfg p (Lexer.new cfg s)).2).2.errsR,
        charIdxOfByte s e.byte = some e.char) := by
  have h0 := new_KPos cfg s
  have h1 := run_KPos cfg p _ h0
  have h2 := run_KPos cfg q _ h1
  have hsrc : (Prog.run cfg q (Prog.run cfg p (Lexer.new cfg s)).2).2.src = s := by
    rw [run_src, run_src, new_src]
  constructor
  · intro t ht
    have := (intoDetached_pos cfg _ h2).1 t ht
    rw [hsrc] at this
    exact charIdxOfByte_of_posPair this
  · intro e he
    have := h2.errs e he
    rw [hsrc] at this
    exact charIdxOfByte_of_posPair this

end SasLexer

namespace SasLexer

theorem intoDetached_errs (cfg : Cfg) (L : Lexer) : (L.intoDetached cfg).2.errsR = L.errsR := by
  unfold Lexer.intoDetached
  dsimp only
  split <;> split <;> (try split) <;> rfl

/-- all positions in the result of the modelled lexer are position pairs -/
theorem lexProgram_pos (cfg : Cfg) (s : List Char) :
    (∀ t ∈ (lexProgram cfg s).buf.toks, charIdxOfByte s t.byte = some t.start) ∧
    (∀ e ∈ (lexProgram cfg s).final.errsR, charIdxOfByte s e.byte = some e.char) := by
  have h0 := new_KPos cfg s
  unfold lexProgram
  dsimp only
  generalize hm : Prog.run cfg (mainLoop cfg (budgetMul * (Lexer.new cfg s).srcLen + 64) 0 ((Lexer.new cfg s).srcLen, [.default])) (Lexer.new cfg s) = r
  have h1 : KPos r.2 := by rw [← hm]; exact run_KPos cfg _ _ h0
  have s1 : r.2.src = s := by rw [← hm, run_src, new_src]
  obtain ⟨o, L1⟩ := r
  dsimp only at h1 s1
  cases o with
  | none =>
    refine ⟨by intro t ht; simp at ht, ?_⟩
    intro e he
    exact charIdxOfByte_of_posPair (s1 ▸ h1.errs e he)
  | some en =>
    obtain ⟨e, n⟩ := en
    dsimp only
    generalize hL2 : (if (e == LoopEnd.detected) = true then (some (), L1)
        else Prog.run cfg (finalizeLexing cfg) L1) = r2
    have h2 : KPos r2.2 := by
      rw [← hL2]; split
      · exact h1
      · exact run_KPos cfg _ _ h1
    have s2 : r2.2.src = s := by
      rw [← hL2]; split
      · exact s1
      · rw [run_src, s1]
    obtain ⟨o2, L2⟩ := r2
    dsimp only at h2 s2 ⊢
    split
    · refine ⟨by intro t ht; simp at ht, ?_⟩
      intro e he
      exact charIdxOfByte_of_posPair (s2 ▸ h2.errs e he)
    · constructor
      · intro t ht
        have := (intoDetached_pos cfg L2 h2).1 t ht
        rw [s2] at this
        exact charIdxOfByte_of_posPair this
      · intro e he
        rw [intoDetached_errs] at he
        exact charIdxOfByte_of_posPair (s2 ▸ h2.errs e he)

/-- **C03 for the modelled lexer**, stated with the executable predicate that also judges the
implementation's dumps: for every source text and build configuration. -/
theorem C03_model (cfg : Cfg) (s : List Char) : Spec.C03 s (modelDump cfg s) = true := by
  obtain ⟨ht, he⟩ := lexProgram_pos cfg s
  unfold modelDump
  split
  · simp [Spec.C03, emptyDump]
  · dsimp only
    split
    · split <;> simp [Spec.C03, emptyDump]
    · simp only [Spec.C03, dumpOfBuf, Bool.and_eq_true, List.all_eq_true, Spec.posOk, beq_iff_eq]
      exact ⟨fun t h => ht t h, fun e h => he e (by simpa using h)⟩

/-- non-vacuity: a concrete multi-byte input on which the model produces tokens and an error -/
example : (modelDump ⟨true, false, false⟩ "é='a".toList).toks.length = 4
    ∧ (modelDump ⟨true, false, false⟩ "é='a".toList).errs.length = 1 := by decide +kernel

end SasLexer
