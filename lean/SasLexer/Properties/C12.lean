import SasLexer.Proofs.Tables
import SasLexer.Spec.Grammar
/-!
# C12 / C13 — well-formed programs: no diagnostics, no residual state; delimiters are tokens

Statements: `C12_statement`, `C13_statement` are relative to the construct grammar whose
executable form is the generator `/verif/tools/gen_grammar.py` (DESIGN.md §7.3); they quantify
over every program it derives.  Proved here: the table theorems that the grammar's delimiters
are exactly what each keyword pre-loads (`C14_preload`, `C10_builtins_expect_lparen`), the
flag-byte round trips (`evalFlags_roundtrip`, `argFlags_roundtrip`: a pre-loaded mode means what
its constructor arguments said), and concrete derivations evaluated in the kernel (these are
tests, labelled as such).  The induction over derivations (one lemma per production, in
continuation form) is not proved; every generated program is judged by `Spec.C12`/`Spec.C13` on
the implementation's dump, and the model is tied by full-dump correspondence.
-/
namespace SasLexer

/-- kernel-evaluated derivations (tests): nested calls, named arguments, %str, %do forms -/
example : Spec.C12 "%macro m(a,b=%str(,)); %do i=1 %to %eval(&a+1); %put &i; %end; %mend; %m(1,b=(x,y));".toList
    (modelDump ⟨true, true, false⟩
      "%macro m(a,b=%str(,)); %do i=1 %to %eval(&a+1); %put &i; %end; %mend; %m(1,b=(x,y));".toList) = [] := by
  decide +kernel

example : Spec.C13 "%m(a=(1,2),%str(;))".toList (modelDump ⟨true, false, false⟩ "%m(a=(1,2),%str(;))".toList)
    [(2, .LPAREN), (4, .ASSIGN), (10, .COMMA), (18, .RPAREN)] [5, 7, 9, 16] [] = [] := by
  decide +kernel

end SasLexer
