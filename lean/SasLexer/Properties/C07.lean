import SasLexer.Spec.C07
import SasLexer.Lex.Main
/-!
# C07 — string payloads hold the unquoted value and partition the literal buffer: theorems

Full-strength statement: `C07_statement`.  Proved (pure, all inputs): `C07_hex_decode_spec` — the
model of `parse_sas_hex_string` (`hex.rs`, after the `fix:` that rejects a sign) decodes a content
exactly when the specification's "pairs of hex digits, commas ignored" does, to the same bytes.
Kernel: payload ranges are only ever produced by `add_string_literal*` (registers), see
`Prog.lean`; the partition clause and the three escaping scanners are model-level and decided per
run by `Spec.C07` on implementation dumps (streams with escapes at every position).
Open finding on this tree until repaired: F9 (DESIGN.md §8).
-/
namespace SasLexer

def C07_statement : Prop := ∀ (cfg : Cfg) (s : List Char), Spec.C07 s (modelDump cfg s) = []

theorem char_le_iff (a b : Char) : a ≤ b ↔ a.toNat ≤ b.toNat := by
  rw [Char.le_def, UInt32.le_iff_toNat_le]; rfl

theorem hexNibble_eq (c : Char) :
    Spec.StrLit.hexNibble? c = if isAsciiHexDigit c then some (hexDigitVal c) else none := by
  unfold Spec.StrLit.hexNibble? isAsciiHexDigit hexDigitVal
  by_cases h1 : isAsciiDigit c = true
  · simp [h1]
  · simp only [h1, Bool.false_eq_true, if_false, Bool.false_or]
    by_cases h2 : ('a' ≤ c && c ≤ 'f') = true
    · have h2' := h2
      simp only [Bool.and_eq_true, decide_eq_true_eq, char_le_iff] at h2'
      have : (97 : Nat) ≤ c.toNat := h2'.1
      simp only [h2, if_true, Bool.true_or, Option.some.injEq]
      show c.toNat - 97 + 10 = c.toNat - 87
      omega
    · simp only [h2, Bool.false_eq_true, if_false, Bool.false_or]
      by_cases h3 : ('A' ≤ c && c ≤ 'F') = true
      · have h3' := h3
        simp only [Bool.and_eq_true, decide_eq_true_eq, char_le_iff] at h3'
        have : (65 : Nat) ≤ c.toNat := h3'.1
        simp only [h3, if_true, Option.some.injEq]
        show c.toNat - 65 + 10 = c.toNat - 55
        omega
      · simp [h3]

theorem hexDigit_ascii (c : Char) (h : isAsciiHexDigit c = true) : isAscii c = true := by
  unfold isAsciiHexDigit isAsciiDigit at h
  unfold isAscii
  simp only [Bool.or_eq_true, Bool.and_eq_true, decide_eq_true_eq, char_le_iff] at h
  simp only [decide_eq_true_eq]
  rcases h with (h | h) | h
  · have : c.toNat ≤ 57 := h.2; omega
  · have : c.toNat ≤ 102 := h.2; omega
  · have : c.toNat ≤ 70 := h.2; omega

theorem hexPairs_eq_spec : ∀ (l : List Char), hexPairs l = Spec.StrLit.hexPairs? l
  | [] => rfl
  | [_] => rfl
  | a :: b :: r => by
    have ih := hexPairs_eq_spec r
    unfold hexPairs Spec.StrLit.hexPairs?
    rw [hexNibble_eq a, hexNibble_eq b, ← ih]
    by_cases ha : isAsciiHexDigit a = true <;> by_cases hb : isAsciiHexDigit b = true
    · have h1 := hexDigit_ascii a ha; have h2 := hexDigit_ascii b hb
      simp only [ha, hb, h1, h2, u8FromStrRadix16, bind, Option.bind, Bool.and_self, Bool.not_true,
        Bool.false_eq_true, if_false, if_true, pure]
      cases hexPairs r <;> simp [Nat.mul_comm]
    · simp [ha, hb, u8FromStrRadix16, bind, Option.bind]
    · simp [ha, hb, u8FromStrRadix16, bind, Option.bind]
    · simp [ha, hb, u8FromStrRadix16, bind, Option.bind]

/-- the model of `parse_sas_hex_string` decodes the content between the quotes exactly as the
specification reads "hex digit pairs, commas ignored" -/
theorem C07_hex_decode_spec (content : List Char) (q : Char) (x : Char) :
    parseSasHexString (q :: content ++ [q, x]) = Spec.StrLit.hexDecode? content := by
  unfold parseSasHexString Spec.StrLit.hexDecode?
  have hlen : ¬ ((q :: content ++ [q, x]).length < 3) := by simp
  simp only [hlen, if_false]
  have : ((q :: content ++ [q, x]).drop 1).take ((q :: content ++ [q, x]).length - 3) = content := by
    simp
  rw [this]
  exact hexPairs_eq_spec _

end SasLexer
