import SasLexer.Dump
/-!
# C03 — character offsets are the code-point index of the byte offset (specification)

`charIdxOfByte s b` = number of Unicode scalar values of `s` that precede byte offset `b`,
defined only when `b` is a character boundary of `s` (`0 ≤ b ≤ utf8Len s`).
The decidable predicate `Spec.C03 s d` judges a dump (of the implementation or of the model).
-/
namespace SasLexer

def charIdxOfByte : List Char → Nat → Option Nat
  | _, 0 => some 0
  | [], _ + 1 => none
  | c :: cs, b + 1 =>
    if c.utf8Size ≤ b + 1 then (charIdxOfByte cs (b + 1 - c.utf8Size)).map (· + 1) else none

/-- slice by code points -/
def sliceChars (s : List Char) (a b : Nat) : List Char := (s.drop a).take (b - a)

namespace Spec

def posOk (s : List Char) (byte char : Nat) : Bool := charIdxOfByte s byte == some char

/-- every token and every error: char offset = number of scalars before its byte offset -/
def C03 (s : List Char) (d : Dump) : Bool :=
  d.toks.all (fun t => posOk s t.byte t.start) && d.errs.all (fun e => posOk s e.byte e.char)

/-- corollary of the property: slicing by code points = slicing by bytes, for consecutive tokens -/
def C03slices (s : List Char) (d : Dump) : Bool :=
  let rec go : List TokInfo → Bool
    | a :: b :: r =>
      (a.byte ≤ b.byte && Lexer.sliceBytes? s a.byte b.byte == some (sliceChars s a.start b.start)) && go (b :: r)
    | _ => true
  go d.toks

end Spec
end SasLexer
