import SasLexer.Spec.Basic
import SasLexer.Spec.ChanTable
import SasLexer.Chars
/-!
# C06 — a token's text has the lexical shape its type and channel promise (specification)

`Spec.C06 s d` evaluates, for every token of the dump `d` of source `s`, the per-type shape
table of DESIGN.md §7.1 on the token's raw text (the chars between its byte offset and the
next token's byte offset), then the channel partition and the emptiness rule.  The verdict
is the list of violated clauses, one clause name per row family of the table:

`token-text` (raw text not sliceable: tokens do not tile the source), `no-row` (a token type
without a table row), `virtual`, `ws`, `catch-all`, `semi`, `amp`, `symbol`, `keyword`,
`numeric-shape`, `quoted-literal`, `string-expr`, `cstyle-comment`, `predicted-comment`,
`macro-comment`, `datalines`, `char-format`, `macro-var-resolve`, `macro-var-term`,
`macro-string`, `macro-label`, `macro-identifier`, `kwm`, `identifier`,
`channel-partition`, `channel-table` (the context-free table of `Spec/ChanTable.lean`; proved for the model, all inputs: `C06_model_channels`), `empty-token`.

Notation of the table: `ws` = `isWhitespace`; `name` = (`_` | XID_Start) XID_Continue*;
`ci` = equality after ASCII upper-casing.  "Error `K` at `b`" = some error of kind `K` whose
byte offset is `b`; "end of input" = byte offset `utf8Len s`.

Readings chosen where the table leaves a choice (always the weakest one):
* `MacroSep` "only with `macro_sep`": the dump does not carry the build configuration, so
  only "empty, DEFAULT channel" is stated here.
* an error "names" a token = it is reported at the token's end offset.
* a `FloatLiteral`/`FloatExponentLiteral` named by `InvalidNumericLiteral` only has to be a
  non-empty run of numeric-literal characters (`malformedNumeric`); its exact extent and
  every float value are C08's subject.  Decimal notation includes the all-digit spelling
  (an integer too large for `u64` is a `FloatLiteral`, §7.2).
* `MacroLabel` "next non-hidden token is HIDDEN `COLON`" is read as in C10: the next token,
  skipping HIDDEN `WS` and COMMENT-channel tokens, is a `COLON` on the HIDDEN channel.
* the shapes of the types that may be empty accept the empty text; whether an empty token
  is licensed is the separate clause `empty-token`.
* "the `LPAREN`/`RPAREN` of a `%str/%nrstr`": the `LPAREN` that directly follows
  `KwmStr`/`KwmNrStr` (skipping HIDDEN `WS` and COMMENT-channel tokens) must be HIDDEN; any
  HIDDEN `LPAREN` must belong to an earlier `%str/%nrstr` keyword that has not got its `(`
  yet (counting; that it follows its keyword *directly* is C10 `builtin-lparen`, not C06);
  a HIDDEN `RPAREN` is one that closes a still open HIDDEN `LPAREN` (more HIDDEN `LPAREN`s
  than HIDDEN `RPAREN`s before it).
-/
namespace SasLexer
namespace Spec
namespace C06

/-- a token together with its extent and raw text -/
structure Tok where
  ty : TokenType
  chan : Channel
  payload : Payload
  byte : Nat
  stop : Nat
  text : List Char
  deriving Repr, Inhabited

/-- raw text of token `i` = source between `tok[i].byte` and `tok[i+1].byte`; the last token
extends to the end of the source -/
def toksOf (s : List Char) : List TokInfo → Option (List Tok)
  | a :: b :: r => do
    let txt ← Lexer.sliceBytes? s a.byte b.byte
    let rest ← toksOf s (b :: r)
    pure (⟨a.ty, a.chan, a.payload, a.byte, b.byte, txt⟩ :: rest)
  | [a] => do
    let n := utf8Len s
    let txt ← Lexer.sliceBytes? s a.byte n
    pure [⟨a.ty, a.chan, a.payload, a.byte, n, txt⟩]
  | [] => some []

/-! ## character-level helpers -/

def upper (t : List Char) : String := String.ofList (t.map toUpperAscii)

/-- `ci` -/
def ciEq (t : List Char) (k : String) : Bool := upper t == k

/-- `name` = (`_` | XID_Start) XID_Continue* -/
def isName : List Char → Bool
  | c :: r => isUnicodeNameStart c && r.all isXidContinue
  | [] => false

def allDigits (t : List Char) : Bool := t.all isAsciiDigit
def digits1 (t : List Char) : Bool := !t.isEmpty && t.all isAsciiDigit

def digitVal (c : Char) : Nat :=
  if isAsciiDigit c then c.toNat - 48
  else if 'a' ≤ c && c ≤ 'f' then c.toNat - 87
  else if 'A' ≤ c && c ≤ 'F' then c.toNat - 55 else 0

/-- value of a digit string in the given base -/
def valueOf (base : Nat) (t : List Char) : Nat := t.foldl (fun acc c => acc * base + digitVal c) 0

/-- text with every occurrence of the quote `q` doubled -/
def onlyDoubled (q : Char) : List Char → Bool
  | [] => true
  | [c] => c != q
  | c :: c' :: r => if c == q then c' == q && onlyDoubled q r else onlyDoubled q (c' :: r)

/-- body of a quoted literal after its opening quote `q`: skip doubled quotes; `some rest` =
what follows the first lone `q` (the closing quote), `none` = no closing quote -/
def afterClosing (q : Char) : List Char → Option (List Char)
  | [] => none
  | [c] => if c == q then some [] else none
  | c :: c' :: r =>
    if c == q then (if c' == q then afterClosing q r else some (c' :: r)) else afterClosing q (c' :: r)

/-- what follows the first `*/`, if any -/
def afterStarSlash : List Char → Option (List Char)
  | [] => none
  | [_] => none
  | c :: c' :: r => if c == '*' && c' == '/' then some r else afterStarSlash (c' :: r)

/-- macro comment body: what follows the first `;` that is outside quotes (`'…'` and `"…"`
open and close alternately; `q` = the currently open quote) -/
def afterSemiOutsideQuotes : Option Char → List Char → Option (List Char)
  | _, [] => none
  | none, c :: r =>
    if c == ';' then some r
    else if c == '\'' || c == '"' then afterSemiOutsideQuotes (some c) r
    else afterSemiOutsideQuotes none r
  | some q, c :: r => if c == q then afterSemiOutsideQuotes none r else afterSemiOutsideQuotes (some q) r

/-! ## the rows -/

/-- spellings of the symbol token types (`lex_symbols`, `lex_macro_eval_operator`; comments of
`token_type.rs`) -/
def symbolSpellings : TokenType → Option (List String)
  | .PERCENT => some ["%"]
  | .LPAREN => some ["("]
  | .RPAREN => some [")"]
  | .LCURLY => some ["{"]
  | .RCURLY => some ["}"]
  | .LBRACK => some ["["]
  | .RBRACK => some ["]"]
  | .STAR => some ["*"]
  | .EXCL => some ["!"]
  | .EXCL2 => some ["!!"]
  | .BPIPE => some ["¦"]
  | .BPIPE2 => some ["¦¦"]
  | .PIPE2 => some ["||"]
  | .STAR2 => some ["**"]
  | .NOT => some ["¬", "^", "~", "∘"]
  | .FSLASH => some ["/"]
  | .PLUS => some ["+"]
  | .MINUS => some ["-"]
  | .GTLT => some ["><"]
  | .LTGT => some ["<>"]
  | .LT => some ["<"]
  | .LE => some ["<="]
  | .NE => some ["¬=", "^=", "~=", "∘="]
  | .GT => some [">"]
  | .GE => some [">="]
  | .SoundsLike => some ["=*"]
  | .PIPE => some ["|"]
  | .DOT => some ["."]
  | .COMMA => some [","]
  | .COLON => some [":"]
  | .ASSIGN => some ["="]
  | .DOLLAR => some ["$"]
  | .AT => some ["@"]
  | .HASH => some ["#"]
  | .QUESTION => some ["?"]
  | _ => none

/-- the symbol types that `ExpectSymbol` may supply as a zero-width virtual token -/
def expectable (ty : TokenType) : Bool :=
  ty == .LPAREN || ty == .RPAREN || ty == .ASSIGN || ty == .COMMA || ty == .FSLASH

/-- a spelling may carry the macro-expression quoting prefix `%` when it starts with `~ ^ =` -/
def quotable (sp : List Char) : Bool :=
  match sp with
  | c :: _ => c == '~' || c == '^' || c == '='
  | [] => false

def symbolShape (ty : TokenType) (spellings : List String) (t : List Char) : Bool :=
  (t.isEmpty && expectable ty)
  || spellings.any fun sp =>
      let sp := sp.toList
      t == sp || (quotable sp && t == '%' :: sp)

/-- characters that start some other open-code token (so are never a `CatchAll`) -/
def startsOpenCodeToken (c : Char) : Bool :=
  isWhitespace c || isUnicodeNameStart c || isAsciiDigit c
  || "'\";/&%*(){}[]!¦|¬^~∘+-<>.,:=$@#?".toList.contains c

/-- `ci` one of the keys that the generated table maps to this type -/
def spellsKeyword (tbl : List (String × TokenType)) (ty : TokenType) (t : List Char) : Bool :=
  tbl.any fun (k, ty') => ty' == ty && ciEq t k

def isKwType (ty : TokenType) : Bool := TokenType.KEYWORDS.any (·.2 == ty)
def isKwmType (ty : TokenType) : Bool := TokenType.MKEYWORDS.any (·.2 == ty)

/-- suffix of the typed quoted literals and of their string-expression ends (upper-cased) -/
def literalSuffix : TokenType → Option String
  | .BitTestingLiteral | .BitTestingLiteralExprEnd => some "B"
  | .DateLiteral | .DateLiteralExprEnd => some "D"
  | .DateTimeLiteral | .DateTimeLiteralExprEnd => some "DT"
  | .NameLiteral | .NameLiteralExprEnd => some "N"
  | .TimeLiteral | .TimeLiteralExprEnd => some "T"
  | .HexStringLiteral | .HexStringLiteralExprEnd => some "X"
  | _ => none

def datalinesWords : List String := ["DATALINES", "CARDS", "LINES", "DATALINES4", "CARDS4", "LINES4"]

/-- `D* (. D*)?` with at least one digit -/
def mantissa (t : List Char) : Bool :=
  let i := t.takeWhile isAsciiDigit
  match t.drop i.length with
  | [] => !i.isEmpty
  | c :: f => c == '.' && allDigits f && (!i.isEmpty || !f.isEmpty)

/-- mantissa `[eE] [+-]? D+` -/
def exponentForm (t : List Char) : Bool :=
  let m := t.takeWhile fun c => c != 'e' && c != 'E'
  match t.drop m.length with
  | _ :: x =>
    mantissa m && (match x with
      | c :: r => if c == '+' || c == '-' then digits1 r else digits1 x
      | [] => false)
  | [] => false

/-- `[0-9][0-9A-Fa-f]*` -/
def hexBody : List Char → Bool
  | c :: r => isAsciiDigit c && r.all isAsciiHexDigit
  | [] => false

/-- text of a numeric token that carries a numeric error: a non-empty run of numeric-literal
characters starting with a digit or `.` (the exact extent is C08's subject) -/
def malformedNumeric : List Char → Bool
  | c :: r => (isAsciiDigit c || c == '.')
      && r.all fun c => isAsciiHexDigit c || c == '.' || c == '+' || c == '-' || c == 'x' || c == 'X'
  | [] => false

/-- context of one token: source length, errors, and the neighbouring tokens -/
structure Ctx where
  n : Nat
  errs : List ErrInfo
  /-- the tokens before this one, nearest first -/
  before : List Tok
  /-- the tokens after this one -/
  after : List Tok

def Ctx.errAt (c : Ctx) (k : ErrorKind) (b : Nat) : Bool := c.errs.any fun e => e.kind == k && e.byte == b

/-- tokens that may separate a construct's tokens: HIDDEN `WS` and COMMENT-channel tokens -/
def skippable (t : Tok) : Bool := (t.ty == .WS && t.chan == .HIDDEN) || t.chan == .COMMENT

def nextSignificant (l : List Tok) : Option Tok := (l.dropWhile skippable).head?
def prevTy (c : Ctx) : Option TokenType := c.before.head?.map (·.ty)
def nextTy (c : Ctx) : Option TokenType := c.after.head?.map (·.ty)

/-- numeric rows -/
def numericShape (c : Ctx) (t : Tok) : Bool :=
  let txt := t.text
  let invalid := c.errAt .InvalidNumericLiteral t.stop
  match t.ty with
  | .IntegerLiteral =>
    -- `[0-9]+`, payload = value
    (digits1 txt && t.payload == .int (valueOf 10 txt))
    -- `[0-9][0-9A-Fa-f]*[xX]`, payload = hex value
    || (match txt.getLast? with
        | some x => (x == 'x' || x == 'X') && hexBody txt.dropLast && t.payload == .int (valueOf 16 txt.dropLast)
        | none => false)
    -- the `x` may be missing iff `UnterminatedHexNumericLiteral` names the token
    || (hexBody txt && c.errAt .UnterminatedHexNumericLiteral t.stop && t.payload == .int (valueOf 16 txt))
  | .FloatLiteral =>
    (match t.payload with | .float _ => true | _ => false)
    && (mantissa txt || (invalid && malformedNumeric txt))
  | .FloatExponentLiteral =>
    (match t.payload with | .float _ => true | _ => false)
    && (exponentForm txt || (invalid && malformedNumeric txt))
  | _ => false

/-- quoted-literal rows: `StringLiteral` and the six typed literals -/
def quotedLiteralShape (c : Ctx) (t : Tok) : Bool :=
  match t.text with
  | q :: body =>
    (q == '\'' || q == '"')
    && (match afterClosing q body, literalSuffix t.ty with
        -- plain literal: nothing after the closing quote
        | some rest, none => rest.isEmpty
        -- typed literal: terminated + suffix (`ci`)
        | some rest, some sfx => ciEq rest sfx
        -- the closing quote may be missing iff `UnterminatedStringLiteral` at end of input
        | none, none => t.stop == c.n && c.errAt .UnterminatedStringLiteral c.n
        | none, some _ => false)
  | [] => false

/-- string-expression rows -/
def stringExprShape (c : Ctx) (t : Tok) : Bool :=
  match t.ty with
  | .StringExprStart => t.text == ['"']
  | .StringExprText => !t.text.isEmpty && onlyDoubled '"' t.text
  | .StringExprEnd =>
    t.text == ['"']
    -- the unterminated tail of the string expression (possibly empty)
    || (t.stop == c.n && c.errAt .UnterminatedStringLiteral c.n && onlyDoubled '"' t.text)
  | ty =>
    match t.text, literalSuffix ty with
    | q :: rest, some sfx => q == '"' && ciEq rest sfx
    | _, _ => false

def semiShape (c : Ctx) (t : Tok) : Bool :=
  t.text == [';']
  || (t.text == ";;;;".toList && prevTy c == some .DatalinesData)
  -- after `DatalinesData` with `UnterminatedDatalines`: a possibly empty run of ≤ 3 `;`
  || (prevTy c == some .DatalinesData && c.errAt .UnterminatedDatalines t.byte
      && t.text.all (· == ';') && t.text.length ≤ 3)
  -- other empty `SEMI`s: see `empty-token`
  || t.text.isEmpty

def datalinesShape (c : Ctx) (t : Tok) : Bool :=
  match t.ty with
  | .DatalinesStart =>
    -- `ci` datalines word, then `ws`*, then `;`
    let w := t.text.takeWhile isIdentContinue
    datalinesWords.any (ciEq w ·)
    && (match (t.text.drop w.length).dropWhile isWhitespace with | [x] => x == ';' | _ => false)
  | .DatalinesData => nextTy c == some .SEMI      -- any text; followed by `SEMI`
  | _ => false

/-- `$` `name`? `[0-9]`* `.` `[0-9]`* -/
def charFormatShape (t : List Char) : Bool :=
  match t with
  | '$' :: r =>
    let r := match r with
      | c :: r' => if isUnicodeNameStart c then r'.dropWhile isXidContinue else r
      | [] => r
    match r.dropWhile isAsciiDigit with
    | '.' :: p => allDigits p
    | _ => false
  | _ => false

def cstyleShape (c : Ctx) (t : Tok) : Bool :=
  match t.text with
  | '/' :: '*' :: body =>
    (match afterStarSlash body with
     | some rest => rest.isEmpty           -- ends `*/` and contains no earlier `*/`
     | none => t.stop == c.n && c.errAt .UnterminatedComment c.n)
  | _ => false

def predictedCommentShape (c : Ctx) (t : Tok) : Bool :=
  match t.text with
  | '*' :: body =>
    (match body.dropWhile (· != ';') with
     | _ :: rest => rest.isEmpty           -- exactly one `;`, last
     | [] => t.stop == c.n)                -- none: runs to end of input
  | _ => false

def macroCommentShape (c : Ctx) (t : Tok) : Bool :=
  match t.text with
  | '%' :: '*' :: body =>
    (match afterSemiOutsideQuotes none body with
     | some rest => rest.isEmpty           -- ends with the first `;` outside quotes
     | none => t.stop == c.n)              -- or runs to end of input
  | _ => false

def macroVarResolveShape (t : Tok) : Bool :=
  match t.payload with
  | .int k => t.text.all (· == '&') && t.text.length == 2 ^ k
  | _ => false

/-- `%` `name` -/
def percentName (t : List Char) : Option (List Char) :=
  match t with
  | '%' :: nm => if isName nm then some nm else none
  | _ => none

def macroLabelShape (c : Ctx) (t : Tok) : Bool :=
  (percentName t.text).isSome
  && (match nextSignificant c.after with
      | some x => x.ty == .COLON && x.chan == .HIDDEN
      | none => false)

def macroIdentifierShape (t : Tok) : Bool :=
  match percentName t.text with
  | some nm => !(TokenType.MKEYWORDS.any fun (k, _) => ciEq nm k)
  | none => false

def kwmShape (t : Tok) : Bool :=
  match t.text with
  | '%' :: kw => spellsKeyword TokenType.MKEYWORDS t.ty kw
  | _ => false

/-- `name`, ASCII part restricted to `[A-Za-z0-9_]` -/
def identifierShape (t : List Char) : Bool :=
  match t with
  | c :: r => isUnicodeNameStart c && r.all isIdentContinue
  | [] => false

/-- the row families of the table (= clause names) -/
inductive Family where
  | virtual | ws | catchAll | semi | amp | symbol | keyword | numeric | quotedLiteral | stringExpr
  | cstyleComment | predictedComment | macroComment | datalines | charFormat | macroVarResolve
  | macroVarTerm | macroString | macroLabel | macroIdentifier | kwm | identifier
  deriving DecidableEq, Repr, Inhabited

def Family.name : Family → String
  | .virtual => "virtual" | .ws => "ws" | .catchAll => "catch-all" | .semi => "semi" | .amp => "amp"
  | .symbol => "symbol" | .keyword => "keyword" | .numeric => "numeric-shape"
  | .quotedLiteral => "quoted-literal" | .stringExpr => "string-expr"
  | .cstyleComment => "cstyle-comment" | .predictedComment => "predicted-comment"
  | .macroComment => "macro-comment" | .datalines => "datalines" | .charFormat => "char-format"
  | .macroVarResolve => "macro-var-resolve" | .macroVarTerm => "macro-var-term"
  | .macroString => "macro-string" | .macroLabel => "macro-label"
  | .macroIdentifier => "macro-identifier" | .kwm => "kwm" | .identifier => "identifier"

/-- the table row of a token type; `none` = the type has no row (the table must be total:
`∀ ty, (familyOf ty).isSome`) -/
def familyOf : TokenType → Option Family
  | .EOF | .MacroSep => some .virtual
  | .WS => some .ws
  | .CatchAll => some .catchAll
  | .SEMI => some .semi
  | .AMP => some .amp
  | .IntegerLiteral | .FloatLiteral | .FloatExponentLiteral => some .numeric
  | .StringLiteral | .BitTestingLiteral | .DateLiteral | .DateTimeLiteral | .NameLiteral
  | .TimeLiteral | .HexStringLiteral => some .quotedLiteral
  | .StringExprStart | .StringExprText | .StringExprEnd | .BitTestingLiteralExprEnd
  | .DateLiteralExprEnd | .DateTimeLiteralExprEnd | .NameLiteralExprEnd | .TimeLiteralExprEnd
  | .HexStringLiteralExprEnd => some .stringExpr
  | .CStyleComment => some .cstyleComment
  | .PredictedCommentStat => some .predictedComment
  | .MacroComment => some .macroComment
  | .DatalinesStart | .DatalinesData => some .datalines
  | .CharFormat => some .charFormat
  | .MacroVarResolve => some .macroVarResolve
  | .MacroVarTerm => some .macroVarTerm
  | .MacroString | .MacroStringEmpty => some .macroString
  | .MacroLabel => some .macroLabel
  | .MacroIdentifier => some .macroIdentifier
  | .Identifier => some .identifier
  | ty =>
    -- `PERCENT` … `QUESTION`: the types with a spelling table
    if (symbolSpellings ty).isSome then some .symbol
    -- `KwLT`…`KwNOT` and every other `Kw*`: the types of the generated `KEYWORDS` table
    else if isKwType ty then some .keyword
    -- `Kwm*`: the types of the generated `MKEYWORDS` table
    else if isKwmType ty then some .kwm
    else none

/-- the shape column of the table -/
def shape (c : Ctx) (t : Tok) : Family → Bool
  | .virtual =>
    if t.ty == .EOF then t.text.isEmpty && c.after.isEmpty           -- empty; last token
    else t.text.isEmpty                                               -- `MacroSep`
  | .ws => !t.text.isEmpty && t.text.all isWhitespace
  | .catchAll => (match t.text with | [x] => !startsOpenCodeToken x | _ => false)
  | .semi => semiShape c t
  | .amp => !t.text.isEmpty && t.text.all (· == '&')
  | .symbol => symbolShape t.ty ((symbolSpellings t.ty).getD []) t.text
  -- `ci` one of the variant's generated keywords
  | .keyword => spellsKeyword TokenType.KEYWORDS t.ty t.text
  | .numeric => numericShape c t
  | .quotedLiteral => quotedLiteralShape c t
  | .stringExpr => stringExprShape c t
  | .cstyleComment => cstyleShape c t
  | .predictedComment => predictedCommentShape c t
  | .macroComment => macroCommentShape c t
  | .datalines => datalinesShape c t
  | .charFormat => charFormatShape t.text
  | .macroVarResolve => macroVarResolveShape t
  | .macroVarTerm => t.text == ['.']
  | .macroString => if t.ty == .MacroStringEmpty then t.text.isEmpty else !t.text.isEmpty
  | .macroLabel => macroLabelShape c t
  | .macroIdentifier => macroIdentifierShape t
  -- `%` + (`ci` one of the variant's generated keywords)
  | .kwm => kwmShape t
  | .identifier => identifierShape t.text

/-- the clause violated by one token, if any -/
def rowViolation (c : Ctx) (t : Tok) : Option String :=
  match familyOf t.ty with
  | none => some "no-row"
  | some f => if shape c t f then none else some f.name

/-! ## channel partition -/

def isCommentType (ty : TokenType) : Bool :=
  ty == .CStyleComment || ty == .PredictedCommentStat || ty == .MacroComment

def prevSignificantTy (c : Ctx) : Option TokenType := (nextSignificant c.before).map (·.ty)

/-- number of still open HIDDEN `LPAREN`s before this token -/
def openHiddenParens (c : Ctx) : Int :=
  c.before.foldl (fun acc t =>
    if t.chan == .HIDDEN && t.ty == .LPAREN then acc + 1
    else if t.chan == .HIDDEN && t.ty == .RPAREN then acc - 1 else acc) 0

/-- number of `%str/%nrstr` keywords before this token that have not yet got their HIDDEN `LPAREN` -/
def unopenedStrCalls (c : Ctx) : Int :=
  c.before.foldl (fun acc t =>
    if t.ty == .KwmStr || t.ty == .KwmNrStr then acc + 1
    else if t.chan == .HIDDEN && t.ty == .LPAREN then acc - 1 else acc) 0

/-- the channel the table assigns to a token -/
def channelOk (c : Ctx) (t : Tok) : Bool :=
  if isCommentType t.ty then t.chan == .COMMENT                       -- COMMENT ⇔ comment type
  else if t.ty == .WS || t.ty == .CatchAll || t.ty == .KwmStr || t.ty == .KwmNrStr then t.chan == .HIDDEN
  else if t.ty == .COLON then                                         -- HIDDEN iff directly after a label
    t.chan == (if prevSignificantTy c == some .MacroLabel then .HIDDEN else .DEFAULT)
  else if t.ty == .LPAREN then
    -- the `(` directly after `%str/%nrstr` is HIDDEN; a HIDDEN `(` belongs to an earlier
    -- `%str/%nrstr` keyword that has not got one yet
    if prevSignificantTy c == some .KwmStr || prevSignificantTy c == some .KwmNrStr then t.chan == .HIDDEN
    else t.chan == .DEFAULT || (t.chan == .HIDDEN && unopenedStrCalls c > 0)
  else if t.ty == .RPAREN then                                        -- HIDDEN only when it closes one
    t.chan == .DEFAULT || (t.chan == .HIDDEN && openHiddenParens c > 0)
  else t.chan == .DEFAULT

/-! ## emptiness rule -/

/-- only the designated types may be empty, each with its licensing condition -/
def emptyOk (c : Ctx) (t : Tok) : Bool :=
  !t.text.isEmpty ||
  match t.ty with
  | .EOF | .MacroSep | .MacroStringEmpty | .DatalinesData => true
  | .SEMI =>
    c.errAt .MissingExpectedSemiOrEOF t.byte || t.byte == c.n
    || (prevTy c == some .DatalinesData && c.errAt .UnterminatedDatalines t.byte)
  | .StringExprEnd => t.byte == c.n && c.errAt .UnterminatedStringLiteral c.n
  | ty =>
    match missingKindOf ty with
    | some k => expectable ty && c.errAt k t.byte
    | none => false

/-! ## the predicate -/

/-- every token with its context -/
def contexts (n : Nat) (errs : List ErrInfo) : List Tok → List Tok → List (Ctx × Tok)
  | _, [] => []
  | before, t :: after => (⟨n, errs, before, after⟩, t) :: contexts n errs (t :: before) after

def dedup (l : List String) : List String := l.foldl (fun acc x => if acc.contains x then acc else acc ++ [x]) []

end C06

open C06 in
def C06 (s : List Char) (d : Dump) : Verdict :=
  match toksOf s d.toks with
  | none => ["token-text"]
  | some toks =>
    let cts := contexts (utf8Len s) d.errs [] toks
    dedup (cts.filterMap fun (c, t) => rowViolation c t)
    ++ clause "channel-partition" (cts.all fun (c, t) => channelOk c t)
    ++ clause "channel-table" (d.toks.all fun t => chanOK t.chan t.ty)
    ++ clause "empty-token" (cts.all fun (c, t) => emptyOk c t)

end Spec
end SasLexer
