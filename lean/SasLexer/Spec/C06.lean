import SasLexer.Spec.Basic
/-! # C06 — dump-level specification (STUB, being written) -/
namespace SasLexer
namespace Spec

def C06 (_s : List Char) (_d : Dump) : Verdict := ["unimplemented"]

end Spec
end SasLexer
