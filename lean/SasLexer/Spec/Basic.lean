import SasLexer.Spec.Text
/-!
# Dump-level specifications of C02, C04, C05, C09 (decidable predicates on source × dump)
Each returns the list of violated clauses (empty = holds), so that a failure names its clause.
-/
namespace SasLexer
namespace Spec

abbrev Verdict := List String
def clause (name : String) (ok : Bool) : Verdict := if ok then [] else [name]

def monotone : List Nat → Bool
  | a :: b :: r => a ≤ b && monotone (b :: r)
  | _ => true

/-- C02: tokens tile the source; single final EOF; accessors total -/
def C02 (s : List Char) (d : Dump) : Verdict :=
  let n := utf8Len s
  let bytes := d.toks.map (·.byte)
  clause "nonempty" (!d.toks.isEmpty)
  ++ clause "first-at-bom-end" (bytes.head? == some (bomLen s))
  ++ clause "monotone" (monotone bytes)
  ++ clause "char-boundaries" (bytes.all fun b => (charIdxOfByte s b).isSome)
  ++ clause "single-final-eof" ((d.toks.filter (·.ty == .EOF)).length == 1
        && (match d.toks.getLast? with | some t => t.ty == .EOF && t.byte == n | none => false))
  ++ clause "accessors-ok" (match d.access with
        | some rows => rows.length == d.toks.length && rows.all fun r => r.all (· ≥ 0) && r.drop 12 == [1, 1]
        | none => false)

/-- expected (end line 1-based, end column) of a token spanning chars [a, b) -/
def endPos (s : List Char) (a b : Nat) : Nat × Nat :=
  if b ≤ a then (lineIdxOfChar s a + 1, colOfChar s a)
  else (lineIdxOfChar s (b - 1) + 1, colOfChar s (b - 1) + 1)

/-- C04: lines and columns of token starts, token ends and errors -/
def C04 (s : List Char) (d : Dump) : Verdict :=
  clause "line-infos" (d.lines == lineStarts s)
  ++ clause "token-start-line" (d.toks.all fun t => t.line == lineIdxOfChar s t.start)
  ++ clause "resolved-rows" (match d.resolved with
      | some rows => rows.all fun r =>
          match r with
          | [_, _, _, a, b, ln, col, el, ec, _, _, _] =>
            let a := a.toNat; let b := b.toNat
            ln.toNat == lineIdxOfChar s a + 1 && col.toNat == colOfChar s a
              && (el.toNat, ec.toNat) == endPos s a b
          | _ => false
      | none => false)
  ++ clause "error-line-col" (d.errs.all fun e =>
        e.line == lineIdxOfChar s e.char + 1 && e.col == colOfChar s e.char)

/-- C05: the bulk resolved view equals the per-token accessors -/
def C05 (_s : List Char) (d : Dump) : Verdict :=
  match d.resolved, d.access with
  | some r, some a =>
    clause "one-row-per-token" (r.length == d.toks.length && a.length == d.toks.length)
    ++ clause "rows-equal" ((r.zip a).all fun (x, y) => x == y.take 12)
    ++ clause "index-order" ((r.zipIdx).all fun (x, i) => x[2]? == some (i : Int))
  | _, _ => ["view-panicked"]

def missingKindOf : TokenType → Option ErrorKind
  | .RPAREN => some .MissingExpectedRParen
  | .ASSIGN => some .MissingExpectedAssign
  | .LPAREN => some .MissingExpectedLParen
  | .COMMA => some .MissingExpectedComma
  | .FSLASH => some .MissingExpectedFSlash
  | .SEMI => some .MissingExpectedSemiOrEOF
  | _ => none

def symbolOfMissing : ErrorKind → Option TokenType
  | .MissingExpectedRParen => some .RPAREN
  | .MissingExpectedAssign => some .ASSIGN
  | .MissingExpectedLParen => some .LPAREN
  | .MissingExpectedComma => some .COMMA
  | .MissingExpectedFSlash => some .FSLASH
  | .MissingExpectedSemiOrEOF => some .SEMI
  | _ => none

/-- (token, width in bytes) pairs -/
def tokWidths : List TokInfo → List (TokInfo × Nat)
  | a :: b :: r => (a, b.byte - a.byte) :: tokWidths (b :: r)
  | [a] => [(a, 0)]
  | [] => []

/-- C09: every error is anchored in the final token stream -/
def C09 (s : List Char) (d : Dump) : Verdict :=
  let n := utf8Len s
  let tw := tokWidths d.toks
  clause "offsets" (d.errs.all fun e => posOk s e.byte e.char && e.byte ≤ n)
  ++ clause "last-token" (d.errs.all fun e =>
        match e.lastTok with
        | none => true
        | some i => match d.toks[i]? with | some t => t.byte ≤ e.byte | none => false)
  ++ clause "order" (monotone (d.errs.map (·.byte)))
  ++ clause "missing-has-token" (d.errs.all fun e =>
        match symbolOfMissing e.kind with
        | none => true
        | some ty => tw.any fun (t, w) => w == 0 && t.ty == ty && t.byte == e.byte)
  ++ clause "zero-width-has-error" (tw.all fun (t, w) =>
        match missingKindOf t.ty with
        | none => true
        | some k =>
          w != 0 || (t.ty == .SEMI && t.byte == n)
            || d.errs.any fun e => e.kind == k && e.byte == t.byte)

end Spec
end SasLexer
