import SasLexer.Spec.Pairs
/-!
# C12, C13, C14 — specifications relative to the construct grammar

The programs, their delimiter tables and the single-delimiter deletions come from the
generator `/verif/tools/gen_grammar.py` (the executable form of the grammar of DESIGN.md §7.3);
the predicates below say what the dump of such a program must look like.
-/
namespace SasLexer
namespace Spec

/-- C12: a well-formed program lexes without diagnostics and leaves no residual state -/
def C12 (_s : List Char) (d : Dump) : Verdict :=
  clause "returns" (d.outcome == .ok)
  ++ clause "no-errors" d.errs.isEmpty
  ++ clause "initial-configuration" (initialSnap d.snap)

def delimiterTypes : List TokenType := [.COMMA, .ASSIGN, .SEMI, .LPAREN, .RPAREN]

/-- C13: `delims` = (byte offset, token type) that must be tokens; `masked` = offsets at which no
delimiter-type token may start; `hidden` = byte ranges that must be covered by HIDDEN/COMMENT tokens only -/
def C13 (_s : List Char) (d : Dump) (delims : List (Nat × TokenType)) (masked : List Nat)
    (hidden : List (Nat × Nat)) : Verdict :=
  let tw := tokWidths d.toks
  clause "returns" (d.outcome == .ok)
  ++ clause "delimiter-tokens" (delims.all fun (b, ty) => d.toks.any fun t => t.byte == b && t.ty == ty)
  ++ clause "masked-not-delimiters" (masked.all fun b =>
        !(d.toks.any fun t => t.byte == b && delimiterTypes.contains t.ty))
  ++ clause "hidden-channels" (hidden.all fun (a, e) =>
        tw.all fun (t, w) =>
          -- a token overlapping [a, e) must be on the HIDDEN or COMMENT channel
          !(t.byte < e && a < t.byte + w) || t.chan == .HIDDEN || t.chan == .COMMENT)

/-- C14: the expected `MissingExpected*` error at `at` and a zero-width recovery token there.  `count` (1 for a
single deleted delimiter) is the number of `)` known to be still open when the text was cut inside nested
parentheses of an argument value: each of them is owed its own recovery token; the nested levels together and the
argument list's own parenthesis are owed a report each. -/
def C14 (_s : List Char) (d : Dump) (kind : ErrorKind) (at_ : Nat) (ty : TokenType) (count : Nat := 1) : Verdict :=
  let tw := tokWidths d.toks
  clause "returns" (d.outcome == .ok)
  ++ clause "error-reported-at" (d.errs.any fun e => e.kind == kind && e.byte == at_)
  ++ clause "recovery-token-at" (tw.any fun (t, w) => w == 0 && t.ty == ty && t.byte == at_)
  -- the nested levels of one argument value share one report (`finalize_lexing` reports once per mode);
  -- the argument list's own parenthesis has its own
  ++ clause "nested-and-own-paren-reported" (min count 2 ≤ (d.errs.filter fun e => e.kind == kind && e.byte == at_).length)
  ++ clause "every-open-paren-recovered" (count ≤ (tw.filter fun (t, w) => w == 0 && t.ty == ty && t.byte == at_).length)

end Spec
end SasLexer
