import SasLexer.Spec.Basic
/-! # C10 — dump-level specification (STUB, being written) -/
namespace SasLexer
namespace Spec

def C10 (_s : List Char) (_d : Dump) : Verdict := ["unimplemented"]

end Spec
end SasLexer
