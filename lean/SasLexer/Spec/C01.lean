import SasLexer.Spec.Basic
/-!
# C01 — lexing is total: returns, never panics/hangs, linear work, no internal (9xxx) error

The dump carries the outcome of the run (`ok` / `panic …` / `budget` = the main loop exceeded
`8·len + 64` iterations, i.e. the release build would not have returned in linear time) and the
number of main-loop iterations.  Bounds: `iters ≤ 4·len + 8`, `tokens ≤ 2·len + 8`,
`errors ≤ 2·len + 8` (`len` in bytes).
-/
namespace SasLexer
namespace Spec

def C01 (s : List Char) (d : Dump) : Verdict :=
  let n := utf8Len s
  clause "returns" (d.outcome == .ok)
  ++ clause "linear-iterations" (d.iters ≤ 4 * n + 8)
  ++ clause "linear-tokens" (d.toks.length ≤ 2 * n + 8)
  ++ clause "linear-errors" (d.errs.length ≤ 2 * n + 8)
  ++ clause "no-internal-error" (d.errs.all fun e => !e.kind.isInternal)

end Spec
end SasLexer
