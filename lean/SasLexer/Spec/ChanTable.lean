import SasLexer.Basic
/-!
# The channel table (context-free reading of C06's channel sentence)

"Comment types are exactly the tokens on the comment channel, whitespace is always hidden, and the hidden channel
holds only whitespace, catch-all characters, label colons and the `%str/%nrstr` wrapper tokens" — as a relation
between a token's channel and type alone.  (The contextual refinement — *which* colons and parentheses are hidden —
is `Spec.C06.channelOk`.)
-/
namespace SasLexer

def isCommentTy (ty : TokenType) : Bool :=
  ty == .CStyleComment || ty == .PredictedCommentStat || ty == .MacroComment

def chanOK (ch : Channel) (ty : TokenType) : Bool :=
  if isCommentTy ty then ch == .COMMENT
  else if ty == .WS || ty == .CatchAll || ty == .KwmStr || ty == .KwmNrStr then ch == .HIDDEN
  else if ty == .COLON || ty == .LPAREN || ty == .RPAREN then ch == .DEFAULT || ch == .HIDDEN
  else ch == .DEFAULT

/-! ## the payload-kind table

Which kind of payload a token type carries: a string payload only on the string families (quoted literals,
string-expression text / end, `MacroString`), an integer only on `IntegerLiteral` and `MacroVarResolve`, a float only on
the two float literal types — and those four numeric types never come without their number. -/

def isStrTy (ty : TokenType) : Bool :=
  ty == .StringLiteral || ty == .BitTestingLiteral || ty == .DateLiteral || ty == .DateTimeLiteral
  || ty == .NameLiteral || ty == .TimeLiteral || ty == .HexStringLiteral
  || ty == .StringExprText || ty == .StringExprEnd || ty == .MacroString

def isIntTy (ty : TokenType) : Bool := ty == .IntegerLiteral || ty == .MacroVarResolve
def isFloatTy (ty : TokenType) : Bool := ty == .FloatLiteral || ty == .FloatExponentLiteral

def payKindOK (ty : TokenType) : Payload → Bool
  | .str _ _ => isStrTy ty
  | .int _ => isIntTy ty
  | .float _ => isFloatTy ty
  | .none => !(isIntTy ty || isFloatTy ty)

end SasLexer
