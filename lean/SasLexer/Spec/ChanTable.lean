import SasLexer.Basic
/-!
# The channel table (context-free reading of C06's channel sentence)

"Comment types are exactly the tokens on the comment channel, whitespace is always hidden, and the hidden channel
holds only whitespace, catch-all characters, label colons and the `%str/%nrstr` wrapper tokens" — as a relation
between a token's channel and type alone.  (The contextual refinement — *which* colons and parentheses are hidden —
is `Spec.C06.channelOk`.)
-/
namespace SasLexer

def isCommentTy (ty : TokenType) : Bool :=
  ty == .CStyleComment || ty == .PredictedCommentStat || ty == .MacroComment

def chanOK (ch : Channel) (ty : TokenType) : Bool :=
  if isCommentTy ty then ch == .COMMENT
  else if ty == .WS || ty == .CatchAll || ty == .KwmStr || ty == .KwmNrStr then ch == .HIDDEN
  else if ty == .COLON || ty == .LPAREN || ty == .RPAREN then ch == .DEFAULT || ch == .HIDDEN
  else ch == .DEFAULT

end SasLexer
