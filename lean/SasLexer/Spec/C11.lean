import SasLexer.Spec.Basic
import SasLexer.Chars
/-!
# C11 — macro-free open code follows the SAS lexical grammar (dump-level specification)

`refLex` is the reference open-code lexer of DESIGN.md §7.2: a left-to-right maximal-munch
reading of the source that carries only two booleans,

* `pending`  — an open-code statement has started and is not yet terminated by `;`,
* `prevSemi` — the last DEFAULT-channel token is `SEMI`, or there is none yet,

and nothing else (no mode stack, no checkpoint, no buffer).  One `step` reads the construct
that starts at the current character and returns its *pieces* (one token each; only a
datalines block has more than one) together with the new `pending`.  Every error of
macro-free open code is reported at the end of the token it belongs to, so a piece carries
the errors raised at its end.  `Spec.C11 s d` compares the `(type, channel, byte)` view of
the dump's tokens and the `(kind, byte)` view of its errors with `refLex s`.
-/
namespace SasLexer
namespace Spec

abbrev RefTok := TokenType × Channel × Nat
abbrev RefErr := ErrorKind × Nat

/-- No macro trigger: no `%` directly followed by `*` or a name start, and no `&` directly
followed by a name start (= no maximal `&`-run followed by a name start). -/
def macroFree (s : List Char) : Bool :=
  (s.zip (s.drop 1)).all fun (a, b) =>
    !(a == '%' && (b == '*' || isUnicodeNameStart b)) && !(a == '&' && isUnicodeNameStart b)

namespace Ref

/-- one token of the reference reading: type, channel, length in characters, and the errors
reported at its end -/
structure Piece where
  ty : TokenType
  len : Nat
  chan : Channel := .DEFAULT
  errs : List ErrorKind := []

/-- length of the maximal prefix of `s` whose characters satisfy `p` -/
def runLen (p : Char → Bool) (s : List Char) : Nat := (s.takeWhile p).length

def digits : List Char → Nat := runLen isAsciiDigit

def u64Max : Nat := 2 ^ 64 - 1
def digitVal (c : Char) : Nat := if isAsciiDigit c then c.toNat - 48 else (toUpperAscii c).toNat - 55
/-- the value of a digit string fits `u64` (the running value is capped just above `u64::MAX`:
once exceeded it stays exceeded, so long digit runs cost linear time) -/
def fitsU64 (base : Nat) (ds : List Char) : Bool :=
  ds.foldl (fun a c => min (a * base + digitVal c) (u64Max + 1)) 0 ≤ u64Max

/-! ## Quoted literals (rules 2, 3) -/

/-- `r` = text after the opening quote `q`: number of characters up to and including the
closing quote (`qq` is an escaped quote, the first lone `q` closes); `none` = not closed -/
def closeLen (q : Char) : List Char → Option Nat
  | [] => none
  | c :: r =>
    if c == q then
      match r with
      | c2 :: r2 => if c2 == q then (closeLen q r2).map (· + 2) else some 1
      | [] => some 1
    else (closeLen q r).map (· + 1)

/-- literal type and suffix length decided by the character(s) right after the closing quote -/
def literalSuffix (after : List Char) : TokenType × Nat :=
  match (after.take 2).map toUpperAscii with
  | 'B' :: _ => (.BitTestingLiteral, 1)
  | 'D' :: 'T' :: _ => (.DateTimeLiteral, 2)
  | 'D' :: _ => (.DateLiteral, 1)
  | 'N' :: _ => (.NameLiteral, 1)
  | 'T' :: _ => (.TimeLiteral, 1)
  | 'X' :: _ => (.HexStringLiteral, 1)
  | _ => (.StringLiteral, 0)

/-- well-formed hex string content: pairs of hex digits, commas ignored -/
def hexPairs (content : List Char) : Bool :=
  let ds := content.filter (· != ',')
  ds.all isAsciiHexDigit && ds.length % 2 == 0

def quoted (q : Char) (r : List Char) : Piece :=
  match closeLen q r with
  | none => { ty := .StringLiteral, len := 1 + r.length, errs := [.UnterminatedStringLiteral] }
  | some n =>
    let (ty, sfx) := literalSuffix (r.drop n)
    let bad := ty == .HexStringLiteral && !hexPairs (r.take (n - 1))
    { ty, len := 1 + n + sfx, errs := if bad then [.InvalidHexStringConstant] else [] }

/-! ## Comments (rules 5, 9) -/

/-- number of characters up to and including the first `*/`; `none` = not closed -/
def cstyleCloseLen : List Char → Option Nat
  | '*' :: '/' :: _ => some 2
  | _ :: r => (cstyleCloseLen r).map (· + 1)
  | [] => none

def cstyleComment (s : List Char) : Piece :=      -- `s` starts with `/*`
  match cstyleCloseLen (s.drop 2) with
  | some n => { ty := .CStyleComment, chan := .COMMENT, len := 2 + n }
  | none => { ty := .CStyleComment, chan := .COMMENT, len := s.length, errs := [.UnterminatedComment] }

def starComment (s : List Char) : Piece :=        -- through the next `;` inclusive, or to the end
  let body := runLen (· != ';') s
  let semi := match s.drop body with | _ :: _ => 1 | [] => 0
  { ty := .PredictedCommentStat, chan := .COMMENT, len := body + semi }

/-! ## Numeric literals (rule 7, "Numeric literal") -/

/-- decimal reading `D+ | D* . D*` (≥ 1 digit) `([eE][+-]?D+)?`.  Integer iff it is `D+` and
fits `u64`.  An exponent marker without digits: the literal ends after the marker and its
optional sign, `InvalidNumericLiteral`. -/
def decimal (s : List Char) : Piece :=
  let i := digits s
  let m := match s.drop i with | '.' :: t => i + 1 + digits t | _ => i
  let isE := match s.drop m with | c :: _ => c == 'e' || c == 'E' | [] => false
  if isE then
    let t := s.drop (m + 1)
    let sign := match t with | c :: _ => if c == '+' || c == '-' then 1 else 0 | [] => 0
    let d := digits (t.drop sign)
    if d > 0 then { ty := .FloatExponentLiteral, len := m + 1 + sign + d }
    else { ty := .FloatLiteral, len := m + 1 + sign, errs := [.InvalidNumericLiteral] }
  else if m == i && fitsU64 10 (s.take i) then { ty := .IntegerLiteral, len := i }
  else { ty := .FloatLiteral, len := m }

/-- `s` starts with a digit, or with `.` followed by a digit -/
def numeric (s : List Char) : Piece :=
  let dec := decimal s
  let h := runLen isAsciiHexDigit s                 -- 0 in the seen-dot form
  let x := match s.drop h with | c :: _ => c == 'x' || c == 'X' | [] => false
  if h > dec.len || (h == dec.len && x) then
    let fits := fitsU64 16 (s.take h)
    { ty := if fits then .IntegerLiteral else .FloatLiteral
      len := if x then h + 1 else h
      errs := (if fits then [] else [.InvalidNumericLiteral])
              ++ (if x then [] else [.UnterminatedHexNumericLiteral]) }
  else dec

/-! ## Words (rule 8) -/

def datalinesWords : List (String × Nat) :=          -- word, length of its terminator `;`…`;`
  [("DATALINES", 1), ("CARDS", 1), ("LINES", 1), ("DATALINES4", 4), ("CARDS4", 4), ("LINES4", 4)]

/-- `(n, terminated)`: the data is the first `n` characters — up to the first `;` at which the
terminator (`k` semicolons) stands; or up to the first `;`/end of input at which fewer than
`k` bytes remain (unterminated) -/
def datalinesData (k : Nat) : List Char → Nat × Bool
  | [] => (0, false)
  | c :: r =>
    if c == ';' && utf8Len ((c :: r).take k) < k then (0, false)     -- fewer than `k` bytes remain
    else if (c :: r).take k == List.replicate k ';' then (0, true)
    else let (n, t) := datalinesData k r; (n + 1, t)

/-- `s` starts with `_` or XID_Start -/
def word (prevSemi : Bool) (s : List Char) : List Piece × Bool :=
  let n := runLen isIdentContinue s
  -- ASCII upper-casing; a word with a non-ASCII character or longer than every keyword is
  -- in neither table, hence a plain identifier
  let up := String.ofList ((s.take n).map toUpperAscii)
  let rest := s.drop n
  let ws := runLen isWhitespace rest
  match TokenType.KEYWORDS.lookup up, datalinesWords.lookup up with
  | some kw, _ => ([{ ty := kw, len := n }], true)
  | none, some k =>
    if prevSemi && (rest.drop ws).head? == some ';' then
      let body := rest.drop (ws + 1)
      let (dlen, terminated) := datalinesData k body
      ([{ ty := .DatalinesStart, len := n + ws + 1 },
        { ty := .DatalinesData, len := dlen, errs := if terminated then [] else [.UnterminatedDatalines] },
        { ty := .SEMI, len := if terminated then k else runLen (· == ';') (body.drop dlen) }],
       false)
    else ([{ ty := .Identifier, len := n }], true)
  | none, none => ([{ ty := .Identifier, len := n }], true)

/-! ## Symbols (rules 10, 11) -/

/-- `r` = text after `$`: length of `name? [0-9]* . [0-9]*` if the text matches -/
def charFormatLen (r : List Char) : Option Nat :=
  let name := match r with
    | c :: t => if isUnicodeNameStart c then 1 + runLen isXidContinue t else 0
    | [] => 0
  let w := digits (r.drop name)
  match r.drop (name + w) with
  | '.' :: t => some (name + w + 1 + digits t)
  | _ => none

/-- two-character spellings first -/
def symbolTable : List (String × TokenType) := [
  ("!!", .EXCL2), ("¦¦", .BPIPE2), ("||", .PIPE2), ("¬=", .NE), ("^=", .NE), ("~=", .NE), ("∘=", .NE),
  ("<=", .LE), ("<>", .LTGT), (">=", .GE), ("><", .GTLT), ("=*", .SoundsLike),
  ("(", .LPAREN), (")", .RPAREN), ("{", .LCURLY), ("}", .RCURLY), ("[", .LBRACK), ("]", .RBRACK),
  ("!", .EXCL), ("¦", .BPIPE), ("|", .PIPE), ("¬", .NOT), ("^", .NOT), ("~", .NOT), ("∘", .NOT),
  ("+", .PLUS), ("-", .MINUS), ("<", .LT), (">", .GT), (".", .DOT), (",", .COMMA), (":", .COLON),
  ("=", .ASSIGN), ("@", .AT), ("#", .HASH), ("?", .QUESTION)]

/-! ## One step -/

/-- the construct starting at `c :: r`: its pieces and the new `pending` -/
def step (pending prevSemi : Bool) (c : Char) (r : List Char) : List Piece × Bool :=
  let s := c :: r
  let tok (ty : TokenType) (len : Nat) : List Piece × Bool := ([{ ty, len }], true)
  if isWhitespace c then ([{ ty := .WS, chan := .HIDDEN, len := runLen isWhitespace s }], pending)
  else if c == '\'' || c == '"' then ([quoted c r], true)
  else if c == ';' then ([{ ty := .SEMI, len := 1 }], false)
  else if c == '/' then
    if r.head? == some '*' then ([cstyleComment s], pending) else tok .FSLASH 1
  else if c == '&' then tok .AMP (runLen (· == '&') s)
  else if c == '%' then tok .PERCENT 1
  else if isAsciiDigit c || (c == '.' && r.head?.any isAsciiDigit) then ([numeric s], true)
  else if isUnicodeNameStart c then word prevSemi s
  else if c == '*' then
    if !pending then ([starComment s], false)
    else if r.head? == some '*' then tok .STAR2 2 else tok .STAR 1
  else if c == '$' then
    match charFormatLen r with
    | some n => tok .CharFormat (1 + n)
    | none => tok .DOLLAR 1
  else
    match symbolTable.find? (fun (e : String × TokenType) => e.1.toList.isPrefixOf s) with
    | some (sp, ty) => tok ty sp.length
    | none => ([{ ty := .CatchAll, chan := .HIDDEN, len := 1 }], true)

/-! ## Driver: byte offsets, `prevSemi`, final `EOF` -/

/-- lay the pieces out from byte offset `pos`: tokens, errors, remaining text, end offset -/
def place : List Piece → List Char → Nat → List RefTok × List RefErr × List Char × Nat
  | [], s, pos => ([], [], s, pos)
  | p :: ps, s, pos =>
    let e := pos + utf8Len (s.take p.len)
    let (ts, es, s', pos') := place ps (s.drop p.len) e
    ((p.ty, p.chan, pos) :: ts, p.errs.map (·, e) ++ es, s', pos')

/-- fuel = remaining length (every step consumes at least one character) -/
def run : Nat → List Char → Nat → Bool → Bool → List RefTok × List RefErr
  | fuel + 1, c :: r, pos, pending, prevSemi =>
    let (pieces, pending') := step pending prevSemi c r
    let (ts, es, s', pos') := place pieces (c :: r) pos
    let prevSemi' := match (pieces.filter (·.chan == .DEFAULT)).getLast? with
      | some p => p.ty == .SEMI
      | none => prevSemi
    let (ts', es') := run fuel s' pos' pending' prevSemi'
    (ts ++ ts', es ++ es')
  | _, _, pos, _, _ => ([(.EOF, .DEFAULT, pos)], [])

end Ref

/-- the reference open-code lexer.  A leading BOM belongs to no token: reading starts after it. -/
def refLex (s : List Char) : List RefTok × List RefErr :=
  match s with
  | c :: r => if c == BOM then Ref.run r.length r 3 false true else Ref.run s.length s 0 false true
  | [] => Ref.run 0 [] 0 false true

/-- C11: on macro-free text the tokens `(type, channel, byte)` — including the final `EOF` — and
the errors `(kind, byte)` are those of `refLex`.  Not macro-free: the property does not apply. -/
def C11 (s : List Char) (d : Dump) : Verdict :=
  if macroFree s then
    let (toks, errs) := refLex s
    clause "tokens" (d.toks.map (fun t => (t.ty, t.chan, t.byte)) == toks)
    ++ clause "errors" (d.errs.map (fun e => (e.kind, e.byte)) == errs)
  else []

end Spec
end SasLexer
