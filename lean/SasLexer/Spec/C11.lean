import SasLexer.Spec.Basic
/-! # C11 — dump-level specification (STUB, being written) -/
namespace SasLexer
namespace Spec

def C11 (_s : List Char) (_d : Dump) : Verdict := ["unimplemented"]

end Spec
end SasLexer
