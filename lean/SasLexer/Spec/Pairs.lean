import SasLexer.Spec.Basic
import SasLexer.Chars
/-!
# Relational (metamorphic) specifications: C15, C16, C17, C18, C19
Predicates over two or three dumps of the same tree / of related inputs.
-/
namespace SasLexer
namespace Spec

def shiftPayload (dl : Nat) : Payload → Payload
  | .str a b => .str (a + dl) (b + dl)
  | p => p

/-! ## C17 — a leading BOM is transparent: `dump (BOM :: s) = shift (3, 1) (dump s)` -/
def C17 (_s : List Char) (d d' : Dump) : Verdict :=
  let tk := d.toks.map fun t => { t with byte := t.byte + 3, start := t.start + 1 }
  let ln := d.lines.map fun l => ({ byte := l.byte + 3, start := l.start + 1 } : LineInfo)
  let er := d.errs.map fun e => { e with byte := e.byte + 3, char := e.char + 1 }
  let rows (r : Option (List (List Int))) : Option (List (List Int)) :=
    r.map fun rs => rs.map fun row =>
      match row with
      | c :: t :: i :: a :: b :: rest => c :: t :: i :: (a + 1) :: (b + 1) :: rest
      | x => x
  clause "outcome" (d.outcome == d'.outcome)
  ++ clause "tokens" (tk == d'.toks)
  ++ clause "line-infos" (ln == d'.lines)
  ++ clause "literal-buffer" (d.lits == d'.lits)
  ++ clause "errors" (er == d'.errs)
  ++ clause "resolved-view" (rows d.resolved == d'.resolved)
  ++ clause "accessor-view" (rows d.access == d'.access)
  ++ clause "end-state" (d.snap == d'.snap && d.iters == d'.iters)

/-! ## C16 — independence of ASCII letter case -/
def C16 (_s _s' : List Char) (d d' : Dump) : Verdict :=
  clause "outcome" (d.outcome == d'.outcome)
  ++ clause "tokens" (d.toks == d'.toks)
  ++ clause "line-infos" (d.lines == d'.lines)
  ++ clause "errors" (d.errs == d'.errs)
  ++ clause "literal-buffer-mod-case" (d.lits.map toUpperAscii == d'.lits.map toUpperAscii)
  ++ clause "resolved-view" (d.resolved == d'.resolved)
  ++ clause "end-state" (d.snap == d'.snap && d.iters == d'.iters)

/-! ## C18 — `macro_sep` only adds separator tokens (`d` = without the feature, `ds` = with) -/

def sepFollowSet : List TokenType :=
  [.MacroLabel, .KwmAbort, .KwmCopy, .KwmDisplay, .KwmGlobal, .KwmGoto, .KwmInput, .KwmLocal, .KwmPut,
   .KwmReturn, .KwmSymdel, .KwmSyscall, .KwmSysexec, .KwmSyslput, .KwmSysmacdelete, .KwmSysmstoreclear,
   .KwmSysrput, .KwmWindow, .KwmMacro, .KwmMend, .KwmLet, .KwmIf, .KwmElse, .KwmDo, .KwmEnd]

/-- number of `MacroSep` tokens among the first `i + 1` tokens -/
def sepsUpTo (toks : List TokInfo) (i : Nat) : Nat := ((toks.take (i + 1)).filter (·.ty == .MacroSep)).length

/-- placement of every separator: zero-width, DEFAULT, directly before a statement keyword / label,
never directly after `;`, a label, `%then`, `%else` (on the DEFAULT channel) -/
def sepPlacementOk : List TokInfo → Option TokenType → Bool
  | [], _ => true
  | [t], _ => t.ty != .MacroSep
  | t :: n :: r, prevDefault =>
    (if t.ty == .MacroSep then
       t.chan == .DEFAULT && t.payload == .none && t.byte == n.byte && sepFollowSet.contains n.ty
         && !(prevDefault == some .SEMI || prevDefault == some .MacroLabel || prevDefault == some .KwmThen
              || prevDefault == some .KwmElse)
     else true)
    && sepPlacementOk (n :: r) (if t.chan == .DEFAULT && t.ty != .MacroSep then some t.ty else prevDefault)

def C18 (_s : List Char) (d ds : Dump) : Verdict :=
  let stripped := ds.toks.filter (·.ty != .MacroSep)
  let ers := ds.errs.map fun e =>
    { e with lastTok := e.lastTok.map fun i => i - sepsUpTo ds.toks i }
  clause "outcome" (d.outcome == ds.outcome)
  ++ clause "no-sep-without-feature" (d.toks.all (·.ty != .MacroSep))
  ++ clause "tokens-after-strip" (stripped == d.toks)
  ++ clause "line-infos" (d.lines == ds.lines)
  ++ clause "literal-buffer" (d.lits == ds.lits)
  ++ clause "errors-renumbered" (ers == d.errs)
  ++ clause "sep-placement" (sepPlacementOk ds.toks none)

/-! ## C19 — the result is a function of the source alone: two dumps of the same source
(other profile / toolchain / thread / history) must be identical -/
def C19 (_s : List Char) (d d' : Dump) : Verdict :=
  clause "outcome" (d.outcome == d'.outcome)
  ++ clause "tokens" (d.toks == d'.toks)
  ++ clause "line-infos" (d.lines == d'.lines)
  ++ clause "literal-buffer" (d.lits == d'.lits)
  ++ clause "errors" (d.errs == d'.errs)
  ++ clause "resolved-view" (d.resolved == d'.resolved)
  ++ clause "end-state" (d.snap == d'.snap)

/-! ## C15 — compositional at closed statement boundaries -/

def initialSnap (sn : Option Snapshot) : Bool :=
  match sn with
  | some x => !x.cp && x.nesting == 0 && x.pending == [false] && x.modes == ["Default"]
  | none => false

/-- `A` is a closed prefix: ends in `;`, the run on `A` ends in the initial configuration, the last
DEFAULT-channel token is `SEMI` or absent, the last token before `EOF` is a `;`-terminated token
(`SEMI`, a predicted comment statement or a macro comment without quote characters), no error. -/
def closedPrefix (a : List Char) (dA : Dump) : Bool :=
  let body := dA.toks.dropLast
  dA.outcome == .ok && a.getLast? == some ';' && initialSnap dA.snap && dA.errs.isEmpty
  && (match dA.snap with | some x => x.lastDefault == none || x.lastDefault == some TokenType.SEMI.toNat | none => false)
  && (match body.getLast? with
      | some t => t.ty == .SEMI || t.ty == .PredictedCommentStat
                    || (t.ty == .MacroComment && !(a.contains '\'' || a.contains '"'))
      | none => false)

/-- the composition clauses (no test of closedness) -/
def C15core (a b : List Char) (dA dB dAB : Dump) : Verdict :=
    let nb := utf8Len a
    let nc := a.length
    let nl := dA.lines.length - 1
    let nt := dA.toks.length - 1
    let nlit := utf8Len dA.lits
    let lastLineStart := match dA.lines.getLast? with | some l => l.start | none => 0
    let colShift := nc - lastLineStart
    let tk := dA.toks.dropLast ++ dB.toks.map fun t =>
      { t with byte := t.byte + nb, start := t.start + nc, line := t.line + nl, payload := shiftPayload nlit t.payload }
    let ln := dA.lines ++ (dB.lines.drop 1).map fun l => ({ byte := l.byte + nb, start := l.start + nc } : LineInfo)
    let er := dA.errs ++ dB.errs.map fun e =>
      { e with byte := e.byte + nb, char := e.char + nc, line := e.line + nl,
               col := if e.line == 1 then e.col + colShift else e.col,
               lastTok := match e.lastTok with
                 | some i => some (i + nt)
                 | none => if nt == 0 then none else some (nt - 1) }
    clause "outcome" (dAB.outcome == .ok)
    ++ clause "tokens" (tk == dAB.toks)
    ++ clause "line-infos" (ln == dAB.lines)
    ++ clause "literal-buffer" (dA.lits ++ dB.lits == dAB.lits)
    ++ clause "errors" (er == dAB.errs)
    ++ clause "end-state" (dB.snap.map (·.modes) == dAB.snap.map (·.modes))

def C15 (a b : List Char) (dA dB dAB : Dump) : Verdict :=
  if !closedPrefix a dA || b.head? == some BOM || dB.outcome != .ok then []   -- property does not apply
  else C15core a b dA dB dAB

/-- closedness of `A` judged by the *reference model's* run on `A` (`dAm`), so that a change of the
implementation cannot take a prefix out of scope by leaving residual state behind; the implementation must then
itself end `A` in the initial configuration and compose. -/
def C15m (a b : List Char) (dA dB dAB dAm : Dump) : Verdict :=
  if !closedPrefix a dAm || b.head? == some BOM || dB.outcome != .ok then []
  else clause "prefix-leaves-initial-configuration" (closedPrefix a dA) ++ C15core a b dA dB dAB

end Spec
end SasLexer
