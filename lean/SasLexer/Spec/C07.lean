import SasLexer.Spec.Basic
/-! # C07 — dump-level specification (STUB, being written) -/
namespace SasLexer
namespace Spec

def C07 (_s : List Char) (_d : Dump) : Verdict := ["unimplemented"]

end Spec
end SasLexer
