import SasLexer.Spec.Basic
import SasLexer.Spec.ChanTable
import SasLexer.Chars
/-!
# C07 — string payloads hold the unquoted value and partition the literal buffer
(dump-level specification)

Every token that can carry a string payload belongs to one of four *families*; the family
fixes the token's **content** (the part of its raw text that is quoted text) and the
**value** (the content with SAS quoting undone):

* **quoted literal** — types `StringLiteral`, `BitTesting/Date/DateTime/Name/Time/HexString
  Literal`; raw text `q … q suffix` with `q` = `'` or `"` (the closing quote is missing in an
  unterminated literal, which runs to the end of the token).  Content = the characters
  between the quotes; value = content with every doubled `qq` collapsed to `q`.
* **hex literal** — a quoted literal of type `HexStringLiteral` whose content, commas
  ignored, consists solely of pairs of hex digits: value = the bytes as characters U+00XX
  (Latin-1).  A `HexStringLiteral` whose content is not of that form is an ordinary quoted
  literal (`InvalidHexStringConstant` is reported for it; that is not judged here).
* **string-expression text** — `StringExprText`, and a `StringExprEnd` that is not the
  closing quote `"` (the unterminated tail of a string expression, DESIGN §7.1): content =
  the whole raw text; value = content with `""` collapsed to `"`.  (The closing-quote
  `StringExprEnd` `"` has empty content.)
* **`%str`/`%nrstr` text** — a `MacroString` token that sits between the HIDDEN `LPAREN` of a
  `%str`/`%nrstr` call and its matching HIDDEN `RPAREN` (`StrPos`, `strPositions`): content =
  the whole raw text; value = content with `%'`, `%"`, `%%`, `%(`, `%)` replaced by their second
  character (left to right).  Two refinements, both on the weak side:
  - HIDDEN parentheses occur only around `%str`/`%nrstr` arguments (DESIGN §7.1, channel
    partition), so every HIDDEN `LPAREN` is taken to open such a call; the keyword token need
    not be adjacent (after `%do %nrstr(…` other tokens intervene on the pinned tree).
  - A `MacroString` *without* payload is only required to be escape-free when it is `%str`
    text proper: the innermost open bracket token (`LPAREN`, `StringExprStart`) is the HIDDEN
    `LPAREN` itself, and the token is not an operand of a macro statement nested in the call
    (`%str(%let a=b%%c;)`, `%str(%put %);)`: between a statement keyword and its `SEMI` the text
    is macro-statement text, where `%` quotes nothing; statements nest, `%str(%do %end;é%%)`:
    the `%do` is still open after the `;` of `%end`).  A `MacroString` anywhere inside the
    call that *carries* a payload is always judged as `%str` text.

Clauses
* `payload-text`: a family token with payload `StringLiteral a b` ⇒ `lits[a..b] = value`.
* `no-payload-means-nothing-to-unquote`: a family token without payload ⇒ `value = content`
  (for a hex literal with non-empty content this says: the content is *not* well-formed
  hex, since a decoded value is shorter than its content; for texts without escapes
  `value = content` holds trivially).
* `ranges-valid-ordered-cover`: the string payload ranges in token order are valid slices of
  `lits`, `a ≤ b`, the first starts at 0, each starts where the previous one ended, the last
  ends at the end of `lits` (no range ⇒ `lits` is empty).
* `payload-kind-table`: the context-free table `payKindOK` of `Spec/ChanTable.lean` (string payloads only on the
  string families, integers only on `IntegerLiteral`/`MacroVarResolve`, floats only on the float literals, and those
  numeric types never without their number); proved for the model, all inputs (`model_payload_kinds`).
* `only-string-types-carry-str-payload`: a `StringLiteral a b` payload occurs only on
  tokens of the four families.
-/
namespace SasLexer
namespace Spec
namespace StrLit

/-- collapse doubled `q` to a single `q` (left to right) -/
def collapse (q : Char) : List Char → List Char
  | a :: b :: r => if a == q && b == q then q :: collapse q r else a :: collapse q (b :: r)
  | l => l

/-- characters that `%` quotes inside `%str`/`%nrstr` -/
def isPercentQuotable (c : Char) : Bool :=
  c == '\'' || c == '"' || c == '%' || c == '(' || c == ')'

/-- `%c` → `c` for the quotable `c` (left to right) -/
def unPercent : List Char → List Char
  | a :: b :: r =>
    if a == '%' && isPercentQuotable b then b :: unPercent r else a :: unPercent (b :: r)
  | l => l

/-- the text after the opening quote `q`: the content up to (excluding) the first `q` that is
not doubled, or everything if there is none -/
def quotedContent (q : Char) : List Char → List Char
  | [] => []
  | [a] => if a == q then [] else [a]
  | a :: b :: r =>
    if a == q then (if b == q then q :: q :: quotedContent q r else [])
    else a :: quotedContent q (b :: r)

def hexNibble? (c : Char) : Option Nat :=
  if isAsciiDigit c then some (c.toNat - '0'.toNat)
  else if 'a' ≤ c && c ≤ 'f' then some (c.toNat - 'a'.toNat + 10)
  else if 'A' ≤ c && c ≤ 'F' then some (c.toNat - 'A'.toNat + 10)
  else none

/-- pairs of hex digits → the bytes as characters U+00XX; `none` if anything else occurs -/
def hexPairs? : List Char → Option (List Char)
  | [] => some []
  | a :: b :: r =>
    match hexNibble? a, hexNibble? b, hexPairs? r with
    | some x, some y, some t => some (Char.ofNat (16 * x + y) :: t)
    | _, _, _ => none
  | [_] => none

/-- value of a hex string literal's content (commas ignored), if it is well-formed -/
def hexDecode? (content : List Char) : Option (List Char) := hexPairs? (content.filter (· != ','))

def isQuotedLiteralType (ty : TokenType) : Bool :=
  ty == .StringLiteral || ty == .BitTestingLiteral || ty == .DateLiteral || ty == .DateTimeLiteral
    || ty == .NameLiteral || ty == .TimeLiteral || ty == .HexStringLiteral

/-- (content, value) of a token of one of the families; `strText` tells whether a
`MacroString` is `%str`/`%nrstr` text -/
def contentValue? (ty : TokenType) (strText : Bool) (text : List Char) : Option (List Char × List Char) :=
  if isQuotedLiteralType ty then
    match text with
    | q :: r =>
      if q == '\'' || q == '"' then
        let content := quotedContent q r
        match (if ty == .HexStringLiteral then hexDecode? content else none) with
        | some v => some (content, v)
        | none => some (content, collapse q content)
      else none
    | [] => none
  else if ty == .StringExprText then some (text, collapse '"' text)
  else if ty == .StringExprEnd then
    (if text == ['"'] then some ([], []) else some (text, collapse '"' text))
  else if ty == .MacroString && strText then some (text, unPercent text)
  else none

def strRange? : Payload → Option (Nat × Nat)
  | .str a b => some (a, b)
  | _ => none

/-- the macro *statement* keywords (`%let`, `%put`, `%do`, `%if`, …) -/
def isMacroStatKw (ty : TokenType) : Bool :=
  let (lo, hi) := TokenType.macroStatRange
  lo.toNat ≤ ty.toNat && ty.toNat ≤ hi.toNat

/-- statement keywords that take no operands of their own (what follows them is ordinary
text of the enclosing context) -/
def isBareStatKw (ty : TokenType) : Bool :=
  ty == .KwmThen || ty == .KwmElse || ty == .KwmInclude || ty == .KwmList

/-- position of a token relative to `%str`/`%nrstr` calls -/
structure StrPos where
  /-- between the HIDDEN `LPAREN` of a `%str`/`%nrstr` and its matching HIDDEN `RPAREN` -/
  inside : Bool
  /-- moreover the innermost open bracket *token* is that HIDDEN `LPAREN` (the token is not
  inside the parentheses of a nested call or expression, nor inside a nested string
  expression), and the token is not an operand of a macro statement nested in the call -/
  text : Bool

/-- an open bracket token: the HIDDEN `LPAREN` of `%str`/`%nrstr` (HIDDEN parentheses occur
only there), any other `LPAREN`, or a `StringExprStart` -/
inductive Bracket where
  | str | paren | dq
  deriving DecidableEq

def closesStringExpr (ty : TokenType) : Bool :=
  ty == .StringExprEnd || ty == .BitTestingLiteralExprEnd || ty == .DateLiteralExprEnd
    || ty == .DateTimeLiteralExprEnd || ty == .NameLiteralExprEnd || ty == .TimeLiteralExprEnd
    || ty == .HexStringLiteralExprEnd

/-- keywords that continue a `%do` statement rather than open a statement of their own -/
def isDoContinuationKw (ty : TokenType) : Bool :=
  ty == .KwmTo || ty == .KwmBy || ty == .KwmWhile || ty == .KwmUntil

/-- One pass over the tokens with the stack of open bracket tokens.  A frame is
`(bracket, stats)`; `stats` = the macro statements with operands that were opened directly in
this frame and have not ended yet, innermost first.  A statement keyword with operands
(`%let`, `%put`, `%if`, `%do`, … — not `%then/%else/%include/%list`) opens a statement, except
that `%to/%by/%while/%until` inside an open statement continue it (`%do i=1 %to 3;`); the next
`SEMI` directly in the frame ends the innermost open statement, `%then` ends an innermost `%if`.
Statements nest (`%do %end; …` — the `%do` is still open after the `;` of `%end`).  The
operands of such a nested statement are macro-statement text, in which `%` quotes nothing;
they are not `%str` text.  A HIDDEN `RPAREN` closes the innermost `str` frame (and whatever
was left open inside it); another `RPAREN` resp. a string-expression end closes the innermost
frame if that is a `paren` resp. `dq`. -/
def strPositions : List TokInfo → (stack : List (Bracket × List TokenType)) → List StrPos
  | [], _ => []
  | t :: r, stack =>
    let (top, stats) := match stack with
      | (b, st) :: _ => (some b, st)
      | [] => (none, [])
    let setStats (st : List TokenType) := match stack with
      | (b, _) :: rest => (b, st) :: rest
      | [] => []
    let stack' :=
      if t.ty == .LPAREN then ((if t.chan == .HIDDEN then Bracket.str else Bracket.paren), []) :: stack
      else if t.ty == .RPAREN then
        (if t.chan == .HIDDEN then (stack.dropWhile (fun f => f.1 != Bracket.str)).drop 1
         else if top == some .paren then stack.drop 1 else stack)
      else if t.ty == .StringExprStart then (Bracket.dq, []) :: stack
      else if closesStringExpr t.ty then (if top == some .dq then stack.drop 1 else stack)
      else if t.ty == .SEMI then setStats (stats.drop 1)
      else if t.ty == .KwmThen then (if stats.head? == some .KwmIf then setStats (stats.drop 1) else stack)
      else if isMacroStatKw t.ty && !isBareStatKw t.ty then
        (if isDoContinuationKw t.ty && !stats.isEmpty then stack else setStats (t.ty :: stats))
      else stack
    ⟨stack.any (·.1 == Bracket.str), top == some .str && stats.isEmpty⟩ :: strPositions r stack'

/-- one token: the token, its raw text, its position relative to `%str`/`%nrstr` calls -/
structure Item where
  tok : TokInfo
  text : Option (List Char)
  pos : StrPos

def items (s : List Char) (toks : List TokInfo) : List Item :=
  let n := utf8Len s
  let rec texts : List TokInfo → List (Option (List Char))
    | [] => []
    | t :: r => Lexer.sliceBytes? s t.byte (match r with | u :: _ => u.byte | [] => n) :: texts r
  (toks.zip ((texts toks).zip (strPositions toks []))).map fun (t, x, p) => ⟨t, x, p⟩

/-- (content, value) of a family token.  A `MacroString` inside a `%str`/`%nrstr`
call that *carries* a payload is judged as `%str` text in any case (only the `%str` text
scanner attaches payloads); one without payload is judged only when it is `%str` text
proper (`pos.text`). -/
def Item.contentValue? (it : Item) : Option (List Char × List Char) :=
  let strText := if (strRange? it.tok.payload).isSome then it.pos.inside else it.pos.text
  it.text.bind (StrLit.contentValue? it.tok.ty strText)

/-- ranges start at `cur`, are ordered and adjacent, and end at `n` -/
def adjacentFrom (n : Nat) : Nat → List (Nat × Nat) → Bool
  | cur, [] => cur == n
  | cur, (a, b) :: r => a == cur && a ≤ b && adjacentFrom n b r

end StrLit

open StrLit in
def C07 (s : List Char) (d : Dump) : Verdict :=
  let its := items s d.toks
  let ranges := d.toks.filterMap fun t => strRange? t.payload
  clause "payload-text" (its.all fun it =>
      match strRange? it.tok.payload, it.contentValue? with
      | some (a, b), some (_, value) => Lexer.sliceBytes? d.lits a b == some value
      | _, _ => true)
  ++ clause "no-payload-means-nothing-to-unquote" (its.all fun it =>
      match strRange? it.tok.payload, it.contentValue? with
      | none, some (content, value) => value == content
      | _, _ => true)
  ++ clause "ranges-valid-ordered-cover"
      ((ranges.all fun (a, b) => (Lexer.sliceBytes? d.lits a b).isSome)
        && adjacentFrom (utf8Len d.lits) 0 ranges)
  ++ clause "only-string-types-carry-str-payload" (its.all fun it =>
      (strRange? it.tok.payload).isNone || it.contentValue?.isSome)
  ++ clause "payload-kind-table" (d.toks.all fun t => payKindOK t.ty t.payload)

end Spec
end SasLexer
