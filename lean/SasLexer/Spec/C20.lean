import SasLexer.Spec.Basic
import SasLexer.MsgpackDefs
/-!
# C20 — the Python binding's positional contract (source × returned msgpack bytes)

`Spec.C20 s bytes` judges what `_sas_lexer_rust._lex_program_from_str(s)` returned, as *Python*
sees it: the bytes are decoded like `msgspec.msgpack.Decoder(tuple[list[Token], list[Error], bytes])`
does (`Msgpack.pyDecode`: one msgpack value, arrays read positionally into the fields declared in
`token.py` / `error.py` in their order — `Gen/Fields`), and the resulting Python objects must satisfy
the contract on **code points** (`List Char` = a Python `str`):

* `decode`          the bytes decode; nothing else is judged when they do not.
* `tiling`          (i) `source[t.start:t.stop]` over all tokens tiles the source: the first token
                    starts after the optional BOM, each token starts where the previous one stops,
                    `start ≤ stop`, the last token is the one `EOF`, empty, at `len(source)`;
                    `token_index` is the position in the list.
* `lines-columns`   (ii) `line`/`column`/`end_line`/`end_column` are those of `start` and `stop` in
                    the text (same reading as `Spec.C04`: 1-based line = 1 + line feeds before the
                    offset, column = code points since the line start, BOM not counted; the end
                    position is one past the last character, an empty token ends where it starts);
                    for errors `on_line`/`at_column` are those of `at_char_offset`,
                    `at_byte_offset` is the UTF-8 byte offset of that code point, and
                    `last_token_index` is `None` or an index into the token list.
* `enum-membership` (iii) every `channel`, `token_type`, `error_kind` value is a member of the shipped
                    Python enum (`Gen/PyEnums`: the committed modules).
* `payload-ranges`  (iv) the literal buffer is UTF-8 text and the `(start, stop)` payloads, in token
                    order, cut it into consecutive slices: the first starts at 0, each starts where
                    the previous one stopped, `start ≤ stop`, the last stops at `len(buffer)`, every
                    cut is on a UTF-8 character boundary (so every slice decodes).  *What* text each
                    slice must hold (the unquoted value) is C07's matter for the modelled crate and
                    is not restated for the published one.
-/
namespace SasLexer
namespace Spec
open Msgpack PyEnums

/-- Python `source[a:b]` for `0 ≤ a`, `0 ≤ b`, on code points (indices past the end are clamped) -/
def pySlice (s : List Char) (a b : Nat) : List Char := (s.take b).drop a

/-- `spans` are consecutive from `p`: each starts where the previous stopped and `start ≤ stop`;
the position reached -/
def chainFrom (p : Nat) : List (Nat × Nat) → Option Nat
  | [] => some p
  | (a, b) :: r => if a == p && a ≤ b then chainFrom b r else none

def isMember (tbl : List (String × Nat)) (i : Int) : Bool := tbl.any fun (_, v) => (v : Int) == i

def c20Tiling (s : List Char) (toks : List PyToken) : Bool :=
  let n := s.length
  let spans := toks.map fun t => (t.start.toNat, t.stop.toNat)
  toks.all (fun t => 0 ≤ t.start && 0 ≤ t.stop)
  && chainFrom (bomChars s) spans == some n
  && (spans.map fun (a, b) => pySlice s a b).flatten == s.drop (bomChars s)
  && (match toks.getLast?, pyTokenType.lookup "EOF" with
      | some t, some eof =>
        t.token_type == (eof : Int) && t.start == (n : Int) && t.stop == (n : Int)
          && (toks.filter fun t => t.token_type == (eof : Int)).length == 1
      | _, _ => false)
  && toks.zipIdx.all fun (t, i) => t.token_index == (i : Int)

def c20LinesColumns (s : List Char) (r : PyResult) : Bool :=
  (r.tokens.all fun t =>
    0 ≤ t.start && 0 ≤ t.stop &&
    let a := t.start.toNat
    let b := t.stop.toNat
    t.line == ((lineIdxOfChar s a + 1 : Nat) : Int) && t.column == ((colOfChar s a : Nat) : Int)
      && t.end_line == (((endPos s a b).1 : Nat) : Int) && t.end_column == (((endPos s a b).2 : Nat) : Int))
  && r.errors.all fun e =>
    0 ≤ e.at_char_offset && 0 ≤ e.at_byte_offset &&
    let c := e.at_char_offset.toNat
    e.on_line == ((lineIdxOfChar s c + 1 : Nat) : Int) && e.at_column == ((colOfChar s c : Nat) : Int)
      && posOk s e.at_byte_offset.toNat c
      && (match e.last_token_index with
          | none => true
          | some i => 0 ≤ i && i < (r.tokens.length : Int))

def c20Enums (r : PyResult) : Bool :=
  (r.tokens.all fun t => isMember pyTokenChannel t.channel && isMember pyTokenType t.token_type)
  && r.errors.all fun e => isMember pyErrorKind e.error_kind

/-- offset `i` of `bs` is the start of a UTF-8 character or the end of `bs` -/
def onCharBoundary (bs : List UInt8) (i : Nat) : Bool :=
  match bs[i]? with
  | some b => !(0x80 ≤ b.toNat && b.toNat < 0xC0)
  | none => i == bs.length

def c20Payloads (r : PyResult) : Bool :=
  let ranges := r.tokens.filterMap fun t =>
    match t.payload with
    | .pair a b => some (a, b)
    | _ => none
  let spans := ranges.map fun (a, b) => (a.toNat, b.toNat)
  ranges.all (fun (a, b) => 0 ≤ a && 0 ≤ b)
  && (String.fromUTF8? (ByteArray.mk r.lits.toArray)).isSome
  && chainFrom 0 spans == some r.lits.length
  && spans.all fun (a, b) => onCharBoundary r.lits a && onCharBoundary r.lits b

/-- C20 on one returned result -/
def C20 (s : List Char) (bytes : List UInt8) : Verdict :=
  match pyDecode bytes with
  | none => ["decode"]
  | some r =>
    clause "tiling" (c20Tiling s r.tokens)
    ++ clause "lines-columns" (c20LinesColumns s r)
    ++ clause "enum-membership" (c20Enums r)
    ++ clause "payload-ranges" (c20Payloads r)

/-- **writer model vs the real writer** (`sasmodel check` property `C20wire`): the returned bytes
are one msgpack value and `Msgpack.encode` of that value is those bytes again — i.e. `encode` writes
this data exactly as `rmp_serde::to_vec` did (smallest integer/length representations, arrays for
structs, bin for the buffer).  Together with `Msgpack.decode_encode` this ties the proved round trip
to the actual wire format. -/
def C20wire (bytes : List UInt8) : Verdict :=
  match decode bytes with
  | some (v, []) => clause "reencode" (encode v == bytes)
  | _ => ["decode"]

end Spec
end SasLexer
