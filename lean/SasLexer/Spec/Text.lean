import SasLexer.Spec.C03
/-! # Text-level specification helpers: BOM, line starts, line/column of an offset -/
namespace SasLexer

def bomLen (s : List Char) : Nat := match s with | c :: _ => if c = BOM then 3 else 0 | [] => 0
def bomChars (s : List Char) : Nat := match s with | c :: _ => if c = BOM then 1 else 0 | [] => 0

/-- (byte, char) of every line start: the end of the optional BOM, then the position after
each line feed -/
def lineStartsFrom : List Char → Nat → Nat → List LineInfo
  | [], _, _ => []
  | c :: cs, b, k =>
    let b' := b + c.utf8Size
    if c = '\n' then ⟨b', k + 1⟩ :: lineStartsFrom cs b' (k + 1) else lineStartsFrom cs b' (k + 1)

def lineStarts (s : List Char) : List LineInfo :=
  ⟨bomLen s, bomChars s⟩ :: lineStartsFrom s 0 0

/-- zero-based line index of a char offset = number of line feeds among the first `k` chars -/
def lineIdxOfChar (s : List Char) (k : Nat) : Nat := ((s.take k).filter (· == '\n')).length

/-- column of char offset `k`: chars since the last line start at or before it (the BOM is
not counted on the first line) -/
def colOfChar (s : List Char) (k : Nat) : Nat :=
  let pre := s.take k
  let sinceNl := (pre.reverse.takeWhile (· != '\n')).length
  if sinceNl = pre.length then sinceNl - bomChars s else sinceNl

end SasLexer
