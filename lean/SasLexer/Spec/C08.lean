import SasLexer.Spec.Basic
import SasLexer.Numeric
/-!
# C08 — numeric literal payloads equal the value written in the source (dump-level specification)

A direct reading of the notations of SAS numeric literals.  `D` = ASCII decimal digit, `H` =
ASCII hex digit.  The text of a numeric token (`IntegerLiteral`, `FloatLiteral`,
`FloatExponentLiteral`) *without a numeric error attached* must be one of

* `D+`                                   — decimal integer,
* `D* . D*` with at least one digit      — decimal fraction,
* one of the two followed by `[eE][+-]?D+` — exponent notation,
* `D H* [xX]`                            — hexadecimal integer,

and then type and payload are determined by the text alone:

| text                         | type                   | payload                                   |
|------------------------------|------------------------|-------------------------------------------|
| `D+`, value ≤ 2^64-1         | `IntegerLiteral`       | `Integer value`                           |
| `D+`, value > 2^64-1         | `FloatLiteral`         | `Float (nearest binary64 of value)`       |
| `D* . D*`                    | `FloatLiteral`         | `Float (nearest binary64 of value)`       |
| … `[eE][+-]?D+`              | `FloatExponentLiteral` | `Float (nearest binary64 of m·10^e)`      |
| `D H* [xX]`, value ≤ 2^64-1  | `IntegerLiteral`       | `Integer value`                           |

"nearest binary64" is `ratToF64` (`Numeric.lean`: round to nearest, ties to even, of an exact
rational); nothing else of `Numeric.lean` is used — the model's `tryParse*` functions play no
role here.

A *numeric error attached* to token `i` is an error of kind `InvalidNumericLiteral` or
`UnterminatedHexNumericLiteral` whose `lastTok` is `i`.  Then only the extent of the token is
specified (clause `error-span`): the token is exactly the malformed literal,

* (ii)  `UnterminatedHexNumericLiteral`: text `D H*` (no `x`), maximal: the next source
        character is neither `x`/`X` nor a hex digit;
* (i)   `InvalidNumericLiteral`, decimal: text `mantissa [eE][+-]?` (exponent marker without
        digits); maximal: the next source character is not a digit, nor a sign when the text
        ends with the marker;
* (iii) `InvalidNumericLiteral`, hexadecimal: text `D H+ [xX]` whose value exceeds 2^64-1.

Consequently a token that contains anything else is rejected, e.g. the 18 characters
`1ffffffffffffffff.` lexed as one token (a hex literal too large for `u64` followed by `.`):
the `.` is not part of any malformed-literal production.

The rule is the same wherever the token occurs (open code, `%eval(…)`, `%sysevalf(…)`): it
only looks at the token's text.  Maximal munch of error-free literals is *not* part of this
property (it is C11's business for macro-free open code); `MacroVarResolve`'s `Integer k`
payload is C06's row.
-/
namespace SasLexer
namespace Spec
namespace NumLit

def u64Max : Nat := 2 ^ 64 - 1

/-- value of a run of decimal digits -/
def decValue (ds : List Char) : Nat := ds.foldl (fun a c => 10 * a + (c.toNat - '0'.toNat)) 0

def hexDigitValue (c : Char) : Nat :=
  if isAsciiDigit c then c.toNat - '0'.toNat
  else if 'a' ≤ c && c ≤ 'f' then c.toNat - 'a'.toNat + 10
  else c.toNat - 'A'.toNat + 10

/-- value of a run of hex digits -/
def hexValue (hs : List Char) : Nat := hs.foldl (fun a c => 16 * a + hexDigitValue c) 0

def isExpMarker (c : Char) : Bool := c == 'e' || c == 'E'
def isSign (c : Char) : Bool := c == '+' || c == '-'
def isX (c : Char) : Bool := c == 'x' || c == 'X'

/-- `D+ | D* . D*` (≥ 1 digit) at the start of `t`: integer digits, fraction digits, whether
a dot is present, and the rest of `t` -/
def mantissa? (t : List Char) : Option (List Char × List Char × Bool × List Char) :=
  let ip := t.takeWhile isAsciiDigit
  match t.dropWhile isAsciiDigit with
  | '.' :: r =>
    let fp := r.takeWhile isAsciiDigit
    if ip.isEmpty && fp.isEmpty then none else some (ip, fp, true, r.dropWhile isAsciiDigit)
  | r => if ip.isEmpty then none else some (ip, [], false, r)

/-- a well-formed numeric literal, read off its text -/
inductive Notation where
  /-- `D+` -/
  | int (ds : List Char)
  /-- `D* . D*` -/
  | frac (ip fp : List Char)
  /-- mantissa `[eE] [+-]? D+` -/
  | exp (ip fp : List Char) (neg : Bool) (ed : List Char)
  /-- `D H* [xX]`; `hs` = all hex digits including the first -/
  | hex (hs : List Char)

/-- `D H*`: the digits of a hex literal without its `x` -/
def isHexDigits (t : List Char) : Bool :=
  (match t with | c :: _ => isAsciiDigit c | [] => false) && t.all isAsciiHexDigit

def notation? (t : List Char) : Option Notation :=
  match t.reverse with
  | [] => none
  | l :: r =>
    if isX l then (if isHexDigits r.reverse then some (.hex r.reverse) else none)
    else
      match mantissa? t with
      | none => none
      | some (ip, _, false, []) => some (.int ip)
      | some (ip, fp, true, []) => some (.frac ip fp)
      | some (ip, fp, _, m :: e) =>
        if !isExpMarker m then none
        else
          let (neg, ed) := match e with
            | '+' :: ed => (false, ed)
            | '-' :: ed => (true, ed)
            | ed => (false, ed)
          if !ed.isEmpty && ed.all isAsciiDigit then some (.exp ip fp neg ed) else none

/-- nearest binary64 of `m · 10^x` (`m` written with `nd` digits).  Far outside the range of
binary64 the power is not computed: for `m ≥ 1`, `x > 400` gives a value `≥ 10^400` (rounds to
+∞), and `x + nd < -400` a value `< 10^-400` (rounds to 0). -/
def nearestF64 (m nd : Nat) (x : Int) : UInt64 :=
  if m = 0 then 0
  else if x > 400 then 0x7FF0000000000000
  else if x + nd < -400 then 0
  else if x ≥ 0 then ratToF64 (m * 10 ^ x.toNat) 1
  else ratToF64 m (10 ^ (-x).toNat)

/-- the type and payload the notation denotes (`none`: a hex literal that does not fit `u64`
has no value) -/
def Notation.denotes : Notation → Option (TokenType × Payload)
  | .int ds =>
    let v := decValue ds
    if v ≤ u64Max then some (.IntegerLiteral, .int v) else some (.FloatLiteral, .float (ratToF64 v 1))
  | .frac ip fp =>
    some (.FloatLiteral, .float (nearestF64 (decValue (ip ++ fp)) (ip ++ fp).length (-(fp.length : Int))))
  | .exp ip fp neg ed =>
    let e : Int := if neg then -(decValue ed : Int) else (decValue ed : Int)
    some (.FloatExponentLiteral,
      .float (nearestF64 (decValue (ip ++ fp)) (ip ++ fp).length (e - (fp.length : Int))))
  | .hex hs =>
    let v := hexValue hs
    if v ≤ u64Max then some (.IntegerLiteral, .int v) else none

/-- `mantissa [eE] [+-]?`: an exponent marker without digits; returns whether a sign is present -/
def emptyExponent? (t : List Char) : Option Bool :=
  match mantissa? t with
  | some (_, _, _, [m]) => if isExpMarker m then some false else none
  | some (_, _, _, [m, sg]) => if isExpMarker m && isSign sg then some true else none
  | _ => none

def isNumericType (ty : TokenType) : Bool :=
  ty == .IntegerLiteral || ty == .FloatLiteral || ty == .FloatExponentLiteral

/-- one numeric token: index, token, raw text, the source character that follows it -/
structure Item where
  idx : Nat
  tok : TokInfo
  text : Option (List Char)
  next : Option Char

/-- the numeric tokens of a dump with their raw text (`text = none` if the offsets are not
valid slice bounds) -/
def items (s : List Char) (toks : List TokInfo) : List Item :=
  let n := utf8Len s
  let rec go (i : Nat) : List TokInfo → List Item
    | [] => []
    | t :: r =>
      let e := match r with | u :: _ => u.byte | [] => n
      let rest := go (i + 1) r
      if isNumericType t.ty then
        ⟨i, t, Lexer.sliceBytes? s t.byte e, ((Lexer.sliceBytes? s e n).getD []).head?⟩ :: rest
      else rest
  go 0 toks

def hasErr (d : Dump) (i : Nat) (k : ErrorKind) : Bool :=
  d.errs.any fun e => e.kind == k && e.lastTok == some i

/-- extent of a token that has a numeric error attached -/
def errorSpanOk (text : List Char) (next : Option Char) (invalid unterminated : Bool) : Bool :=
  if unterminated then
    -- (ii) `D H*`, maximal, the `x` is missing (a too large value may be reported in addition)
    isHexDigits text && !(match next with | some c => isX c || isAsciiHexDigit c | none => false)
  else if invalid then
    -- (i) exponent marker without digits, maximal
    (match emptyExponent? text with
      | some signed =>
        (match next with
          | some c => !isAsciiDigit c && (signed || !isSign c)
          | none => true)
      | none => false)
    -- (iii) hex literal too large for `u64`
    || (match notation? text with
      | some (.hex hs) => hexValue hs > u64Max
      | _ => false)
  else true

end NumLit

open NumLit in
def C08 (s : List Char) (d : Dump) : Verdict :=
  let its := items s d.toks
  let errOf (it : Item) : Bool × Bool :=
    (hasErr d it.idx .InvalidNumericLiteral, hasErr d it.idx .UnterminatedHexNumericLiteral)
  /- tokens without a numeric error, with what their text denotes -/
  let clean := its.filter fun it => errOf it == (false, false)
  let noteOf (it : Item) : Option Notation := it.text.bind notation?
  clause "notation" (clean.all fun it => (noteOf it).isSome)
  ++ clause "type" (clean.all fun it =>
      match (noteOf it).bind Notation.denotes with
      | some (ty, _) => it.tok.ty == ty
      | none => true)
  ++ clause "integer-value" (clean.all fun it =>
      match noteOf it with
      | none => true
      | some nt =>
        match nt.denotes with
        | some (_, .int v) => it.tok.payload == .int v
        | some _ => true
        | none => false)         -- hex literal too large for u64, yet no error
  ++ clause "float-value" (clean.all fun it =>
      match (noteOf it).bind Notation.denotes with
      | some (_, .float b) => it.tok.payload == .float b
      | _ => true)
  ++ clause "error-span" (its.all fun it =>
      let (inv, unt) := errOf it
      !(inv || unt) ||
        match it.text with
        | some t => errorSpanOk t it.next inv unt
        | none => false)

end Spec
end SasLexer
