import SasLexer.Spec.Basic
/-! # C08 — dump-level specification (STUB, being written) -/
namespace SasLexer
namespace Spec

def C08 (_s : List Char) (_d : Dump) : Verdict := ["unimplemented"]

end Spec
end SasLexer
