import SasLexer.Basic
/-!
# Lexer state and primitives

One Lean function per primitive of `cursor.rs`, `buffer.rs` (work buffer) and
`mod.rs:180-445` (`Lexer` helper methods), written to mirror the Rust body including the
defensive branches.  A debug assertion becomes: under `cfg.debug` set `panicked` (the run
stops there, see `Prog.run`), otherwise continue with the release behaviour.
-/
namespace SasLexer

structure Cfg where
  debug : Bool      -- cfg!(debug_assertions)
  macroSep : Bool   -- feature "macro_sep"
  nightly : Bool := false  -- cfg(rustc_nightly): push_within_capacity path in add_token
  deriving Repr, DecidableEq, Inhabited

/-- `cursor::Cursor`: `rest` is `Chars<'a>`; `remBytes` is `chars.as_str().len()` (O(1) in
Rust by pointer difference), maintained incrementally here; that it equals `utf8Len rest`
is an invariant that is *proved* (`KInv`). `charOff` is `char_offset`. -/
structure Cursor where
  rest : List Char
  charOff : Nat
  remBytes : Nat
  deriving Repr, DecidableEq, Inhabited

namespace Cursor
def new (s : List Char) : Cursor := { rest := s, charOff := 0, remBytes := utf8Len s }
def peek (c : Cursor) : Option Char := c.rest.head?
/-- `peek_next`: second char or `EOF_CHAR` ('\0'). -/
def peekNext (c : Cursor) : Char := (c.rest.drop 1).head?.getD (Char.ofNat 0)
def advance (c : Cursor) : Option Char × Cursor :=
  match c.rest with
  | [] => (none, c)
  | ch :: r => (some ch, { rest := r, charOff := c.charOff + 1, remBytes := c.remBytes - ch.utf8Size })
/-- `advance_by` (the loop; both `cfg!(debug_assertions)` forks do the same to `chars`
and `char_offset`). The `debug_assert!(n > 0)` is handled by the caller (`Lexer.advanceBy`). -/
def advanceBy : Cursor → Nat → Cursor
  | c, 0 => c
  | c, n + 1 =>
    match c.rest with
    | [] => c
    | ch :: r => advanceBy { rest := r, charOff := c.charOff + 1, remBytes := c.remBytes - ch.utf8Size } n
/-- `eat_while`, by structural recursion on the remaining text. -/
def eatWhileAux (p : Char → Bool) : List Char → Nat → Nat → List Char × Nat × Nat
  | [], co, rb => ([], co, rb)
  | ch :: r, co, rb => if p ch then eatWhileAux p r (co + 1) (rb - ch.utf8Size) else (ch :: r, co, rb)
def eatWhile (c : Cursor) (p : Char → Bool) : Cursor :=
  let (r, co, rb) := eatWhileAux p c.rest c.charOff c.remBytes
  { rest := r, charOff := co, remBytes := rb }
end Cursor

/-- (byte offset, char offset, line index) — `cur_token_*` and the result of `mark_token_start`. -/
structure Pos3 where
  byte : Nat
  start : Nat
  line : Nat
  deriving Repr, DecidableEq, Inhabited

/-- `LexerCheckpoint` + `WorkBufferCheckpoint`. `nLits` counts chars of the literal buffer
(the Rust field counts bytes; only used to truncate back to a length that was a length of
the buffer, so the two agree). -/
structure Checkpoint where
  cur : Cursor
  tok : Pos3
  modeLen : Nat
  nLines : Nat
  nToks : Nat
  nLits : Nat
  nErrs : Nat
  deriving Repr, DecidableEq, Inhabited

/-- Registers replacing the position-valued Rust locals of the three escaping scanners
(`lit_start_idx`, `lit_end_idx`, `last_lit_end_byte_offset`). -/
structure LitRegs where
  start : Nat := 0
  stop : Nat := 0
  lastEnd : Nat := 0
  /-- `seen_escape` -/
  seen : Bool := false
  deriving Repr, DecidableEq, Inhabited

structure Lexer where
  src : List Char
  srcLen : Nat
  linesR : List LineInfo
  toksR : List TokInfo
  litsR : List Char
  cur : Cursor
  tok : Pos3
  modesR : List Mode
  errsR : List ErrInfo
  cp : Option Checkpoint
  nesting : Nat
  pendingR : List Bool
  -- registers (model-only homes of position-valued Rust locals)
  mark : Option Pos3 := none
  lit : LitRegs := {}
  payReg : Payload := .none
  errReg : Option ErrInfo := none
  -- ghost
  panicked : Option String := none
  deriving Repr, Inhabited

namespace Lexer

/-- record an assertion outcome in the ghost field: the first failure wins -/
def chk (dbg : Bool) (p : Option String) (cond : Bool) (msg : String) : Option String :=
  match p with
  | some m => some m
  | none => if dbg && !cond then some msg else none

def panic (L : Lexer) (msg : String) : Lexer := { L with panicked := chk true L.panicked false msg }

/-- `debug_assert!(cond, msg)`: touches nothing but the ghost field `panicked` -/
def dassert (cfg : Cfg) (L : Lexer) (cond : Bool) (msg : String) : Lexer :=
  { L with panicked := chk cfg.debug L.panicked cond msg }

def curByte (L : Lexer) : Nat := L.srcLen - L.cur.remBytes
def curChar (L : Lexer) : Nat := L.cur.charOff
def lineCount (L : Lexer) : Nat := L.linesR.length
def tokenCount (L : Lexer) : Nat := L.toksR.length
def litsLen (L : Lexer) : Nat := utf8Len L.litsR

/-- `WorkTokenizedBuffer::add_line` (with its debug assertion). Returns the new line index. -/
def bufAddLine (cfg : Cfg) (L : Lexer) (byte start : Nat) : Nat × Lexer :=
  (L.linesR.length,
   { L with linesR := ⟨byte, start⟩ :: L.linesR,
            panicked := chk cfg.debug L.panicked (byte ≤ L.srcLen) "Line byte offset out of bounds" })

/-- Byte offset of line `i` (zero-based) in the newest-first list. -/
def lineAt? (L : Lexer) (i : Nat) : Option LineInfo :=
  if i < L.linesR.length then L.linesR[L.linesR.length - 1 - i]? else none

/-- the debug assertions of `add_token`, in order -/
def tokChecks (cfg : Cfg) (L : Lexer) (t : TokInfo) : Option String :=
  let d := cfg.debug
  let p := chk d L.panicked (t.start ≤ L.srcLen) "Token char offset out of bounds"
  let p := chk d p (match L.toksR with | last :: _ => t.byte ≥ last.byte | [] => true)
              "Token byte offset before previous token byte offset"
  let p := chk d p (t.line ≤ L.linesR.length) "Line index out of bounds"
  match L.lineAt? t.line with
  | some li => chk d p (t.byte ≥ li.byte) "Token byte offset before line byte offset"
  | none => chk d p false "index out of bounds"

/-- `WorkTokenizedBuffer::add_token`. The `assert!(len != u32::MAX)` is outside the model
(needs 2^32-1 tokens). The nightly `push_within_capacity` path pushes the same element. -/
def bufAddToken (cfg : Cfg) (L : Lexer) (t : TokInfo) : Lexer :=
  { L with toksR := t :: L.toksR, panicked := tokChecks cfg L t }

/-- `add_line` of `Lexer`. -/
def addLine (cfg : Cfg) (L : Lexer) : Nat × Lexer := L.bufAddLine cfg L.curByte L.curChar

/-- `buffer.last_line().unwrap_or_else(|| self.add_line())` -/
def lastLineOrAdd (cfg : Cfg) (L : Lexer) : Nat × Lexer :=
  match L.linesR.length with
  | 0 => L.addLine cfg
  | n + 1 => (n, L)

def startToken (cfg : Cfg) (L : Lexer) : Lexer :=
  let b := L.curByte
  let c := L.curChar
  let (ln, L) := L.lastLineOrAdd cfg
  { L with tok := ⟨b, c, ln⟩ }

/-- `mark_token_start`, stored in the `mark` register only if it is empty
(`ws_mark = ws_mark.or_else(|| Some(self.mark_token_start()))`). -/
def markIfNone (cfg : Cfg) (L : Lexer) : Lexer :=
  match L.mark with
  | some _ => L
  | none =>
    let b := L.curByte
    let c := L.curChar
    let (ln, L) := L.lastLineOrAdd cfg
    { L with mark := some ⟨b, c, ln⟩ }

def clearMark (L : Lexer) : Lexer := { L with mark := none }

def emitToken (cfg : Cfg) (L : Lexer) (ch : Channel) (ty : TokenType) (p : Payload) : Lexer :=
  L.bufAddToken cfg ⟨ch, ty, L.tok.byte, L.tok.start, L.tok.line, p⟩

/-- `emit_token_at_mark` with the mark register (no mark: nothing is emitted; the control
logic only calls it with a mark present). -/
def emitTokenAtMark (cfg : Cfg) (L : Lexer) (ch : Channel) (ty : TokenType) (p : Payload) : Lexer :=
  match L.mark with
  | some m => L.bufAddToken cfg ⟨ch, ty, m.byte, m.start, m.line, p⟩
  | none => L

def prepError (L : Lexer) (k : ErrorKind) : ErrInfo :=
  let lastLineStart := match L.linesR with | li :: _ => li.start | [] => 0
  let c := L.curChar
  { kind := k, byte := L.curByte, char := c, line := L.lineCount, col := c - lastLineStart,
    lastTok := match L.toksR.length with | 0 => none | n + 1 => some n }

def emitErrorInfo (L : Lexer) (e : ErrInfo) : Lexer := { L with errsR := e :: L.errsR }
def emitError (L : Lexer) (k : ErrorKind) : Lexer := L.emitErrorInfo (L.prepError k)

def updateLastToken (cfg : Cfg) (L : Lexer) (ch : Channel) (ty : TokenType) (p : Payload) : Lexer :=
  match L.toksR with
  | t :: ts => { L with toksR := { t with chan := ch, ty := ty, payload := p } :: ts }
  | [] =>
    let L := L.emitError .InternalErrorNoTokenToReplace
    L.bufAddToken cfg ⟨ch, ty, L.tok.byte, L.tok.start, L.tok.line, p⟩

def pushMode (L : Lexer) (m : Mode) : Lexer := { L with modesR := m :: L.modesR }

def popMode (L : Lexer) : Lexer :=
  match L.modesR with
  | _ :: ms => { L with modesR := ms }
  | [] => (L.emitError .InternalErrorEmptyModeStack).pushMode .default

def mode (L : Lexer) : Mode × Lexer :=
  match L.modesR with
  | m :: _ => (m, L)
  | [] => (.default, (L.emitError .InternalErrorEmptyModeStack).pushMode .default)

def pushPendingStat (L : Lexer) (v : Bool) : Lexer := { L with pendingR := v :: L.pendingR }

def popPendingStat (L : Lexer) : Lexer :=
  match L.pendingR with
  | _ :: b :: r => { L with pendingR := b :: r }
  | _ => L

def pendingStat (L : Lexer) : Bool × Lexer :=
  match L.pendingR with
  | [] => (false, { L.emitError .InternalErrorEmptyPendingStatStack with pendingR := [false] })
  | v :: _ => (v, L)

def setPendingStat (L : Lexer) (v : Bool) : Lexer :=
  match L.pendingR with
  | [] => { L.emitError .InternalErrorEmptyPendingStatStack with pendingR := [v] }
  | _ :: r => { L with pendingR := v :: r }

def checkpoint (cfg : Cfg) (L : Lexer) : Lexer :=
  let L := L.dassert cfg L.cp.isNone "assertion failed: self.checkpoint.is_none()"
  { L with cp := some { cur := L.cur, tok := L.tok, modeLen := L.modesR.length,
                        nLines := L.linesR.length, nToks := L.toksR.length, nLits := L.litsR.length,
                        nErrs := L.errsR.length } }

def clearCheckpoint (L : Lexer) : Lexer := { L with cp := none }

/-- keep the oldest `n` elements of a newest-first list (`Vec::truncate(n)`) -/
def truncR {α} (l : List α) (n : Nat) : List α := l.drop (l.length - n)

/-- `rollback` (the error list is truncated too since the `fix:` for rolled-back diagnostics; the
prepared-error register — a Rust local that never outlives a dispatcher call — is dropped) -/
def rollback (L : Lexer) : Lexer :=
  match L.cp with
  | some c =>
    { L with cp := none, cur := c.cur, tok := c.tok, errReg := none,
             modesR := truncR L.modesR c.modeLen,
             toksR := truncR L.toksR c.nToks,
             linesR := truncR L.linesR c.nLines,
             litsR := truncR L.litsR c.nLits,
             errsR := truncR L.errsR c.nErrs }
  | none => L.emitError .InternalErrorMissingCheckpoint

/-- chars of `src` between two byte offsets, `None` when out of range / not on boundaries
(`str::get(a..b)`). -/
def sliceBytes? : List Char → Nat → Nat → Option (List Char)
  | s, 0, b => takeBytes? s b
  | [], _ + 1, _ => none
  | c :: cs, a + 1, b =>
    if c.utf8Size ≤ a + 1 ∧ c.utf8Size ≤ b then sliceBytes? cs (a + 1 - c.utf8Size) (b - c.utf8Size) else none
where
  takeBytes? : List Char → Nat → Option (List Char)
    | _, 0 => some []
    | [], _ + 1 => none
    | c :: cs, b + 1 => if c.utf8Size ≤ b + 1 then (takeBytes? cs (b + 1 - c.utf8Size)).map (c :: ·) else none

/-- `buffer.add_string_literal` -/
def addStringLiteral (L : Lexer) (s : List Char) : (Nat × Nat) × Lexer :=
  let a := L.litsLen
  let L := { L with litsR := s.reverse ++ L.litsR }
  ((a, L.litsLen), L)

/-- `add_string_literal_from_src(start, end)`; `stop = none` means the current offset. -/
def addStringLiteralFromSrc (cfg : Cfg) (L : Lexer) (start : Nat) (stop : Option Nat) : (Nat × Nat) × Lexer :=
  let e := stop.getD L.curByte
  let L := L.dassert cfg (start ≤ e) "assertion failed: start_byte_offset <= end_byte_offset"
  match (if start ≤ e then sliceBytes? L.src start e else none) with
  | some t => L.addStringLiteral t
  | none => (L.emitError .InternalErrorOutOfBounds).addStringLiteral []

/-- `pending_token_text` (and the two variants that slice to the mark / from one byte
before the token start). -/
def pendingTextFrom (L : Lexer) (a b : Nat) (err : ErrorKind) : List Char × Lexer :=
  match (if a ≤ b then sliceBytes? L.src a b else none) with
  | some t => (t, L)
  | none => ([], L.emitError err)

def pendingText (L : Lexer) : List Char × Lexer :=
  L.pendingTextFrom L.tok.byte L.curByte .InternalErrorNoTokenText

/-- `cursor.eat_char(BOM)` -/
def skipBom (c : Cursor) : Cursor :=
  match c.rest with
  | ch :: _ => if ch = BOM then c.advance.2 else c
  | [] => c

/-- `Lexer::new` (after the `FileTooLarge` test). `cur_token_start = u32::from(eat_char(BOM))`
equals the cursor's char offset after the optional BOM (it starts at 0). -/
def new (cfg : Cfg) (s : List Char) : Lexer :=
  let cur := skipBom (Cursor.new s)
  let srcLen := utf8Len s
  let byte := srcLen - cur.remBytes
  let start := cur.charOff
  let L : Lexer := {
    src := s, srcLen := srcLen, linesR := [], toksR := [], litsR := [], cur := cur,
    tok := ⟨byte, start, 0⟩, modesR := [.default], errsR := [], cp := none, nesting := 0,
    pendingR := [false],
    -- model-only register: starts at the cursor (it is set by `litBegin` before every use)
    lit := { lastEnd := byte } }
  (L.bufAddLine cfg byte start).2

end Lexer
end SasLexer
