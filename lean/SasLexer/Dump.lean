import SasLexer.Buffer
/-!
# Canonical dump (shared line format with `/verif/harness`, see `harness/SPEC.md`)

Both the implementation (through the harness) and the model produce a `Dump`; property
predicates (`Spec/*.lean`) are functions of the source text and a `Dump`.
-/
namespace SasLexer

inductive Outcome where
  | ok
  | budget
  | panic (msg : String)
  | toolarge
  | unmodelled (what : String)   -- model only: control logic not (yet) modelled on this path
  deriving Repr, DecidableEq, Inhabited

structure Snapshot where
  cp : Bool
  nesting : Nat
  pending : List Bool        -- oldest first
  lastDefault : Option Nat
  last : Option Nat
  modes : List String        -- bottom first, encoded
  /-- the same, decoded (`none`: some entry does not decode); not printed -/
  dec : Option (List Mode) := none
  deriving Repr, DecidableEq, Inhabited

structure Dump where
  outcome : Outcome
  toks : List TokInfo              -- `line` zero-based
  lines : List LineInfo
  lits : List Char
  errs : List ErrInfo
  /-- bulk resolved view, 12 integers per row; `none` = the call panicked -/
  resolved : Option (List (List Int))
  /-- accessor view, 14 integers per row (-1 = accessor returned `Err`); `none` = panicked -/
  access : Option (List (List Int))
  snap : Option Snapshot
  iters : Nat
  deriving Repr, Inhabited

/-! ## printing -/

def payloadInts : Payload → List Int
  | .none => [0, 0, 0]
  | .int v => [1, v, 0]
  | .float b => [2, b.toNat, 0]
  | .str a b => [3, a, b]

def hexDigit (n : Nat) : Char := if n < 10 then Char.ofNat (48 + n) else Char.ofNat (87 + n)
def hexOfBytes (bs : List UInt8) : String :=
  String.ofList (bs.flatMap fun b => [hexDigit (b.toNat / 16), hexDigit (b.toNat % 16)])
def utf8Bytes (cs : List Char) : List UInt8 := (String.ofList cs).toUTF8.toList

def joinInts (l : List Int) : String := " ".intercalate (l.map toString)

def Outcome.format : Outcome → String
  | .ok => "ok"
  | .budget => "budget"
  | .panic m => s!"panic {m}"
  | .toolarge => "toolarge"
  | .unmodelled w => s!"unmodelled {w}"

def rowsFormat (tag : String) : Option (List (List Int)) → String
  | none => s!"{tag} -1"
  | some rows => if rows.isEmpty then s!"{tag} 0" else s!"{tag} {rows.length} " ++ joinInts rows.flatten

def Snapshot.format (s : Snapshot) : String :=
  let pend := String.ofList (s.pending.map fun b => if b then '1' else '0')
  let o (x : Option Nat) : String := match x with | some n => toString n | none => "-1"
  let base := s!"X {if s.cp then 1 else 0} {s.nesting} {pend} {o s.lastDefault} {o s.last} {s.modes.length}"
  if s.modes.isEmpty then base else base ++ " " ++ " ".intercalate s.modes

def Dump.format (d : Dump) : String :=
  let t := d.toks.flatMap fun t => ([t.chan.toNat, t.ty.toNat, t.byte, t.start, t.line + 1] : List Int) ++ payloadInts t.payload
  let l := d.lines.flatMap fun l => ([l.byte, l.start] : List Int)
  let e := d.errs.flatMap fun e => ([e.kind.toNat, e.byte, e.char, e.line, e.col,
              (match e.lastTok with | some n => (n : Int) | none => -1)] : List Int)
  let sec (tag : String) (n : Nat) (xs : List Int) := if n = 0 then s!"{tag} 0" else s!"{tag} {n} {joinInts xs}"
  let lits := if d.lits.isEmpty then "-" else hexOfBytes (utf8Bytes d.lits)
  " | ".intercalate [d.outcome.format, sec "T" d.toks.length t, sec "L" d.lines.length l, s!"S {lits}",
    sec "E" d.errs.length e, rowsFormat "R" d.resolved, rowsFormat "A" d.access,
    (match d.snap with | some s => s.format | none => "X -"), s!"I {d.iters}"]

/-! ## parsing -/

def hexVal (c : Char) : Option Nat :=
  if '0' ≤ c ∧ c ≤ '9' then some (c.toNat - 48)
  else if 'a' ≤ c ∧ c ≤ 'f' then some (c.toNat - 87)
  else if 'A' ≤ c ∧ c ≤ 'F' then some (c.toNat - 55) else none

def bytesOfHex : List Char → Option (List UInt8)
  | [] => some []
  | a :: b :: r => do
    let x ← hexVal a; let y ← hexVal b
    let t ← bytesOfHex r
    pure (UInt8.ofNat (x * 16 + y) :: t)
  | _ => none

def charsOfHex (s : String) : Option (List Char) := do
  let bs ← bytesOfHex s.toList
  let str ← String.fromUTF8? (ByteArray.mk bs.toArray)
  pure str.toList

def parseInts (ws : List String) : Option (List Int) := ws.mapM String.toInt?

def chunks {α} (n : Nat) (l : List α) : List (List α) :=
  if n = 0 then [] else go n l l.length
where
  go (n : Nat) (l : List α) : Nat → List (List α)
    | 0 => []
    | fuel + 1 => if l.isEmpty then [] else l.take n :: go n (l.drop n) fuel

def payloadOfInts : List Int → Option Payload
  | [0, _, _] => some .none
  | [1, v, _] => some (.int v.toNat)
  | [2, v, _] => some (.float (UInt64.ofNat v.toNat))
  | [3, a, b] => some (.str a.toNat b.toNat)
  | _ => none

def words (s : String) : List String := (s.splitOn " ").filter (· ≠ "")

/-- section "TAG n x x x ..." → (n, ints) -/
def parseSection (tag : String) (s : String) : Option (Int × List Int) :=
  match words s with
  | t :: n :: rest => if t = tag then do pure (← n.toInt?, ← parseInts rest) else none
  | _ => none

def parseTok : List Int → Option TokInfo
  | [ch, ty, b, c, ln, p, pa, pb] => do
    pure { chan := ← Channel.ofNat? ch.toNat, ty := ← TokenType.ofNat? ty.toNat, byte := b.toNat,
           start := c.toNat, line := ln.toNat - 1, payload := ← payloadOfInts [p, pa, pb] }
  | _ => none

def parseErr : List Int → Option ErrInfo
  | [k, b, c, ln, col, lt] => do
    pure { kind := ← ErrorKind.ofNat? k.toNat, byte := b.toNat, char := c.toNat, line := ln.toNat,
           col := col.toNat, lastTok := if lt < 0 then none else some lt.toNat }
  | _ => none

def parseRows (tag : String) (w : Nat) (s : String) : Option (Option (List (List Int))) := do
  let (n, xs) ← parseSection tag s
  if n < 0 then pure none
  else if xs.length ≠ n.toNat * w then none
  else pure (some (chunks w xs))

def parseSnapshot (s : String) : Option (Option Snapshot) :=
  match words s with
  | ["X", "-"] => some none
  | "X" :: cp :: nest :: pend :: ld :: l :: depth :: modes => do
    let o (x : String) : Option (Option Nat) := do let i ← x.toInt?; pure (if i < 0 then none else some i.toNat)
    let d ← depth.toNat?
    if modes.length ≠ d then none
    pure (some { cp := cp = "1", nesting := ← nest.toNat?, pending := pend.toList.map (· = '1'),
                 lastDefault := ← o ld, last := ← o l, modes := modes, dec := modes.mapM Mode.decode })
  | _ => none

def parseOutcome (s : String) : Option Outcome :=
  match words s with
  | ["ok"] => some .ok
  | ["budget"] => some .budget
  | ["toolarge"] => some .toolarge
  | "panic" :: rest => some (.panic (" ".intercalate rest))
  | "unmodelled" :: rest => some (.unmodelled (" ".intercalate rest))
  | _ => none

def parseDump (line : String) : Option Dump :=
  match line.splitOn " | " with
  | [o, t, l, s, e, r, a, x, i] => do
    let outcome ← parseOutcome o
    let (nt, ti) ← parseSection "T" t
    if ti.length ≠ nt.toNat * 8 then none
    let toks ← (chunks 8 ti).mapM parseTok
    let (nl, li) ← parseSection "L" l
    if li.length ≠ nl.toNat * 2 then none
    let lines ← (chunks 2 li).mapM fun | [b, c] => some (⟨b.toNat, c.toNat⟩ : LineInfo) | _ => none
    let lits ← match words s with
      | ["S", "-"] => some []
      | ["S", h] => charsOfHex h
      | _ => none
    let (ne, ei) ← parseSection "E" e
    if ei.length ≠ ne.toNat * 6 then none
    let errs ← (chunks 6 ei).mapM parseErr
    let resolved ← parseRows "R" 12 r
    let access ← parseRows "A" 14 a
    let snap ← parseSnapshot x
    let iters ← match words i with | ["I", n] => n.toNat? | _ => none
    pure { outcome, toks, lines, lits, errs, resolved, access, snap, iters }
  | _ => none

end SasLexer
