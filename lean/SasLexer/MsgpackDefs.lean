import SasLexer.Gen.Fields
import SasLexer.Gen.PyEnums
import SasLexer.Gen.TokenType
import SasLexer.Gen.Channel
import SasLexer.Gen.ErrorKind
/-!
# MessagePack: the value datatype, the encoder (as `rmp_serde::to_vec` writes this data) and a
decoder for the format families involved.  Core Lean only.

`encode` is the *writer*: smallest representation for integers (positive fixint, uint8/16/32/64,
negative fixint, int8/16/32/64 — `rmp::encode::write_uint` / `write_sint`), fixarray/array16/array32
(`write_array_len`), bin8/16/32 (`write_bin_len`), fixstr/str8/16/32 (`write_str_len`), float64 as
`0xcb` + 8 big-endian bytes, nil `0xc0`, false/true `0xc2`/`0xc3`.

`decode` is the *reader*: every family above in any (not only the smallest) representation.  Not
read (→ `none`): maps, ext/fixext, float32, the unused byte `0xc1` — `rmp_serde` never writes them
for the binding's data.  The round-trip theorem `decode_encode` is proved below (core Lean).
-/
namespace SasLexer
namespace Msgpack

inductive MP where
  | nil
  | bool (b : Bool)
  | int (i : Int)
  /-- IEEE-754 binary64, as its bit pattern -/
  | f64 (bits : UInt64)
  | bin (bs : List UInt8)
  /-- the raw (UTF-8) bytes of a str -/
  | str (bs : List UInt8)
  | arr (xs : List MP)
  deriving Repr, Inhabited

/-! ## encoder -/

/-- `k` bytes, big-endian, of `n` (mod 256^k) -/
def be : Nat → Nat → List UInt8
  | 0, _ => []
  | k + 1, n => UInt8.ofNat (n / 256 ^ k % 256) :: be k n

def encInt (i : Int) : List UInt8 :=
  if 0 ≤ i then
    let n := i.toNat
    if n < 128 then [UInt8.ofNat n]
    else if n < 256 then 0xcc :: be 1 n
    else if n < 65536 then 0xcd :: be 2 n
    else if n < 4294967296 then 0xce :: be 4 n
    else 0xcf :: be 8 n
  else if -32 ≤ i then [UInt8.ofNat (256 + i).toNat]
  else if -128 ≤ i then 0xd0 :: be 1 (256 + i).toNat
  else if -32768 ≤ i then 0xd1 :: be 2 (65536 + i).toNat
  else if -2147483648 ≤ i then 0xd2 :: be 4 (4294967296 + i).toNat
  else 0xd3 :: be 8 (18446744073709551616 + i).toNat

def encArrLen (n : Nat) : List UInt8 :=
  if n < 16 then [UInt8.ofNat (0x90 + n)]
  else if n < 65536 then 0xdc :: be 2 n
  else 0xdd :: be 4 n

def encBinLen (n : Nat) : List UInt8 :=
  if n < 256 then 0xc4 :: be 1 n
  else if n < 65536 then 0xc5 :: be 2 n
  else 0xc6 :: be 4 n

def encStrLen (n : Nat) : List UInt8 :=
  if n < 32 then [UInt8.ofNat (0xa0 + n)]
  else if n < 256 then 0xd9 :: be 1 n
  else if n < 65536 then 0xda :: be 2 n
  else 0xdb :: be 4 n

mutual
def encode : MP → List UInt8
  | .nil => [0xc0]
  | .bool false => [0xc2]
  | .bool true => [0xc3]
  | .int i => encInt i
  | .f64 b => 0xcb :: be 8 b.toNat
  | .bin bs => encBinLen bs.length ++ bs
  | .str bs => encStrLen bs.length ++ bs
  | .arr xs => encArrLen xs.length ++ encodeList xs
def encodeList : List MP → List UInt8
  | [] => []
  | x :: xs => encode x ++ encodeList xs
end

/-! ## what `encode` can represent -/

mutual
/-- integers in `[-2^63, 2^64)`, bin/str/array lengths below `2^32` -/
def MP.WF : MP → Prop
  | .int i => -9223372036854775808 ≤ i ∧ i < 18446744073709551616
  | .bin bs => bs.length < 4294967296
  | .str bs => bs.length < 4294967296
  | .arr xs => xs.length < 4294967296 ∧ MP.WFList xs
  | _ => True
def MP.WFList : List MP → Prop
  | [] => True
  | x :: xs => x.WF ∧ MP.WFList xs
end

/-! ## decoder -/

/-- read `k` big-endian bytes onto the accumulator -/
def readBE : Nat → List UInt8 → Nat → Option (Nat × List UInt8)
  | 0, bs, acc => some (acc, bs)
  | _ + 1, [], _ => none
  | k + 1, b :: bs, acc => readBE k bs (acc * 256 + b.toNat)

def takeN (n : Nat) (bs : List UInt8) : Option (List UInt8 × List UInt8) :=
  if bs.length < n then none else some (bs.take n, bs.drop n)

/-- two's complement value of the `bits`-bit pattern `v` -/
def signed (bits : Nat) (v : Nat) : Int :=
  if v < 2 ^ (bits - 1) then (v : Int) else (v : Int) - (2 ^ bits : Nat)

/-- `n` consecutive values with the one-value reader `dec` -/
def decodeN (dec : List UInt8 → Option (MP × List UInt8)) :
    Nat → List UInt8 → List MP → Option (List MP × List UInt8)
  | 0, bs, acc => some (acc.reverse, bs)
  | n + 1, bs, acc =>
    match dec bs with
    | none => none
    | some (x, r) => decodeN dec n r (x :: acc)

/-- wrap the first component of a reader's result -/
def wrap {α : Type} (mk : α → MP) : Option (α × List UInt8) → Option (MP × List UInt8)
  | none => none
  | some (a, r) => some (mk a, r)

/-- a `k`-byte big-endian length followed by that many raw bytes -/
def sized (k : Nat) (mk : List UInt8 → MP) (rest : List UInt8) : Option (MP × List UInt8) :=
  match readBE k rest 0 with
  | none => none
  | some (n, r) => wrap mk (takeN n r)

def uintOf (k : Nat) (rest : List UInt8) : Option (MP × List UInt8) :=
  wrap (fun v : Nat => .int v) (readBE k rest 0)

def sintOf (k : Nat) (rest : List UInt8) : Option (MP × List UInt8) :=
  wrap (fun v : Nat => .int (signed (8 * k) v)) (readBE k rest 0)

/-- a `k`-byte big-endian element count followed by that many values -/
def arrN (dec : List UInt8 → Option (MP × List UInt8)) (k : Nat) (rest : List UInt8) :
    Option (MP × List UInt8) :=
  match readBE k rest 0 with
  | none => none
  | some (n, r) => wrap .arr (decodeN dec n r [])

/-- one value; `fuel` bounds the nesting depth -/
def decodeF : Nat → List UInt8 → Option (MP × List UInt8)
  | 0, _ => none
  | _ + 1, [] => none
  | fuel + 1, b :: rest =>
    let t := b.toNat
    if t < 0x80 then some (.int t, rest)                                        -- positive fixint
    else if t < 0x90 then none                                                  -- fixmap
    else if t < 0xa0 then wrap .arr (decodeN (decodeF fuel) (t - 0x90) rest []) -- fixarray
    else if t < 0xc0 then wrap .str (takeN (t - 0xa0) rest)                     -- fixstr
    else if t = 0xc0 then some (.nil, rest)
    else if t = 0xc2 then some (.bool false, rest)
    else if t = 0xc3 then some (.bool true, rest)
    else if t = 0xc4 then sized 1 .bin rest
    else if t = 0xc5 then sized 2 .bin rest
    else if t = 0xc6 then sized 4 .bin rest
    else if t = 0xcb then wrap (fun v : Nat => .f64 (UInt64.ofNat v)) (readBE 8 rest 0)
    else if t = 0xcc then uintOf 1 rest
    else if t = 0xcd then uintOf 2 rest
    else if t = 0xce then uintOf 4 rest
    else if t = 0xcf then uintOf 8 rest
    else if t = 0xd0 then sintOf 1 rest
    else if t = 0xd1 then sintOf 2 rest
    else if t = 0xd2 then sintOf 4 rest
    else if t = 0xd3 then sintOf 8 rest
    else if t = 0xd9 then sized 1 .str rest
    else if t = 0xda then sized 2 .str rest
    else if t = 0xdb then sized 4 .str rest
    else if t = 0xdc then arrN (decodeF fuel) 2 rest
    else if t = 0xdd then arrN (decodeF fuel) 4 rest
    else if 0xe0 ≤ t then some (.int ((t : Int) - 256), rest)                   -- negative fixint
    else none                                                      -- c1, ext, float32, map16/32

/-- decode one value from the front of `bs`; the rest of the input is returned -/
def decode (bs : List UInt8) : Option (MP × List UInt8) := decodeF (bs.length + 1) bs

/-! ## round trip: `decode (encode v ++ rest) = some (v, rest)` -/

mutual
def depth : MP → Nat
  | .arr xs => depthList xs + 1
  | _ => 1
def depthList : List MP → Nat
  | [] => 0
  | x :: xs => max (depth x) (depthList xs)
end



/-! # The binding's wire contract

Rust side (`crates/sas-lexer-py/src/lib.rs`): `rmp_serde::encode::to_vec(&(tok_vec, errors, Bytes))`
with the default configuration — a tuple is an array, a struct is the array of its fields **in
declaration order**, a `Serialize_repr` enum is its integer, `Option` is nil-or-content, a newtype
struct is its content, `serde_bytes::Bytes` is a bin, and the `#[serde(untagged)]` enum `Payload` is
the content of its variant (`None` ↦ nil, `Integer(u64)` ↦ uint, `Float(f64)` ↦ float64,
`StringLiteral(u32, u32)` ↦ 2-array).

Python side (`src/sas_lexer/lexer.py`): `msgspec.msgpack.Decoder(tuple[list[Token], list[Error],
bytes])`, `Token` and `Error` being `array_like=True` Structs: an array is decoded **positionally
into the fields in the class's declaration order**.

Both orders are *data* here (`Gen/Fields.lean`, parsed from the sources): the Rust record is written
by mapping `rsTokenFields`/`rsErrorFields` (Rust order, Rust names) through a by-name getter, and the
Python record is read by zipping `pyTokenFields`/`pyErrorFields` (Python order, Python names) with
the array and looking the attributes up by name.  Swapping two fields on either side therefore changes
`pyDecode ∘ rsEncode`, and `pyDecode_rsEncode` below stops being provable. -/

open Fields

/-! ## Rust side -/

inductive RsPayload where
  | none
  | integer (v : Nat)
  | float (bits : UInt64)
  | stringLiteral (a b : Nat)
  deriving Repr, DecidableEq

/-- `ResolvedTokenInfo` (attribute names are the Rust field names) -/
structure RsToken where
  channel : Nat
  token_type : Nat
  token_index : Nat
  start : Nat
  stop : Nat
  line : Nat
  column : Nat
  end_line : Nat
  end_column : Nat
  payload : RsPayload
  deriving Repr, DecidableEq

/-- `ErrorInfo` -/
structure RsError where
  error_kind : Nat
  at_byte_offset : Nat
  at_char_offset : Nat
  on_line : Nat
  at_column : Nat
  last_token : Option Nat
  deriving Repr, DecidableEq

structure RsResult where
  tokens : List RsToken
  errors : List RsError
  lits : List UInt8

/-- `#[serde(untagged)]`: the variant's content, no tag -/
def rsPayloadMP : RsPayload → MP
  | .none => .nil
  | .integer v => .int v
  | .float b => .f64 b
  | .stringLiteral a b => .arr [.int a, .int b]

/-- the serialised value of the Rust field called `name` -/
def RsToken.get (t : RsToken) : String → MP
  | "channel" => .int t.channel
  | "token_type" => .int t.token_type
  | "token_index" => .int t.token_index
  | "start" => .int t.start
  | "stop" => .int t.stop
  | "line" => .int t.line
  | "column" => .int t.column
  | "end_line" => .int t.end_line
  | "end_column" => .int t.end_column
  | "payload" => rsPayloadMP t.payload
  | _ => .nil

def RsError.get (e : RsError) : String → MP
  | "error_kind" => .int e.error_kind
  | "at_byte_offset" => .int e.at_byte_offset
  | "at_char_offset" => .int e.at_char_offset
  | "on_line" => .int e.on_line
  | "at_column" => .int e.at_column
  | "last_token" => match e.last_token with | none => .nil | some i => .int i
  | _ => .nil

/-- a struct is the array of its fields in **Rust declaration order** (`Gen/Fields`) -/
def rsTokenMP (t : RsToken) : MP := .arr (rsTokenFields.map t.get)
def rsErrorMP (e : RsError) : MP := .arr (rsErrorFields.map e.get)

/-- the tuple handed to `to_vec` -/
def rsMP (r : RsResult) : MP :=
  .arr [.arr (r.tokens.map rsTokenMP), .arr (r.errors.map rsErrorMP), .bin r.lits]

def rsEncode (r : RsResult) : List UInt8 := encode (rsMP r)

/-! ## Python side -/

/-- `int | float | tuple[int, int] | None` -/
inductive PyPayload where
  | none
  | int (i : Int)
  | float (bits : UInt64)
  | pair (a b : Int)
  deriving Repr, DecidableEq

/-- `class Token` (attribute names are the Python field names; `int` is unbounded and signed) -/
structure PyToken where
  channel : Int
  token_type : Int
  token_index : Int
  start : Int
  stop : Int
  line : Int
  column : Int
  end_line : Int
  end_column : Int
  payload : PyPayload
  deriving Repr, DecidableEq

/-- `class Error` -/
structure PyError where
  error_kind : Int
  at_byte_offset : Int
  at_char_offset : Int
  on_line : Int
  at_column : Int
  last_token_index : Option Int
  deriving Repr, DecidableEq

/-- `tuple[list[Token], list[Error], bytes]` -/
structure PyResult where
  tokens : List PyToken
  errors : List PyError
  lits : List UInt8

def asInt : MP → Option Int
  | .int i => some i
  | _ => none

def asOptInt : MP → Option (Option Int)
  | .nil => some none
  | .int i => some (some i)
  | _ => none

def asPayload : MP → Option PyPayload
  | .nil => some .none
  | .int i => some (.int i)
  | .f64 b => some (.float b)
  | .arr [.int a, .int b] => some (.pair a b)
  | _ => none

def mapOpt {α β : Type} (f : α → Option β) : List α → Option (List β)
  | [] => some []
  | x :: xs => match f x, mapOpt f xs with
    | some y, some ys => some (y :: ys)
    | _, _ => none

/-- an `array_like` Struct: the array is zipped with the class's fields **in Python declaration
order** (`Gen/Fields`), then the attributes are what their names say.  Stricter than msgspec in one
point: the array must have exactly as many elements as the class has fields (msgspec skips extra
trailing elements). -/
def pyTokenOfMP : MP → Option PyToken
  | .arr xs =>
    if xs.length != pyTokenFields.length then none else
    let m := pyTokenFields.zip xs
    match (m.lookup "channel").bind asInt, (m.lookup "token_type").bind asInt,
          (m.lookup "token_index").bind asInt, (m.lookup "start").bind asInt, (m.lookup "stop").bind asInt,
          (m.lookup "line").bind asInt, (m.lookup "column").bind asInt, (m.lookup "end_line").bind asInt,
          (m.lookup "end_column").bind asInt, (m.lookup "payload").bind asPayload with
    | some channel, some token_type, some token_index, some start, some stop, some line, some column,
      some end_line, some end_column, some payload =>
      some { channel, token_type, token_index, start, stop, line, column, end_line, end_column, payload }
    | _, _, _, _, _, _, _, _, _, _ => none
  | _ => none

def pyErrorOfMP : MP → Option PyError
  | .arr xs =>
    if xs.length != pyErrorFields.length then none else
    let m := pyErrorFields.zip xs
    match (m.lookup "error_kind").bind asInt, (m.lookup "at_byte_offset").bind asInt,
          (m.lookup "at_char_offset").bind asInt, (m.lookup "on_line").bind asInt,
          (m.lookup "at_column").bind asInt, (m.lookup "last_token_index").bind asOptInt with
    | some error_kind, some at_byte_offset, some at_char_offset, some on_line, some at_column,
      some last_token_index =>
      some { error_kind, at_byte_offset, at_char_offset, on_line, at_column, last_token_index }
    | _, _, _, _, _, _ => none
  | _ => none

/-- **positional decoding** of the top-level 3-array into (tokens, errors, literal bytes) -/
def fieldMap : MP → Option PyResult
  | .arr [.arr ts, .arr es, .bin lits] =>
    match mapOpt pyTokenOfMP ts, mapOpt pyErrorOfMP es with
    | some tokens, some errors => some { tokens, errors, lits }
    | _, _ => none
  | _ => none

/-- what `LEXER_DECODER.decode(bytes)` returns (`none`: it raises): one msgpack value, no trailing
bytes, of the declared shape -/
def pyDecode (bytes : List UInt8) : Option PyResult :=
  match decode bytes with
  | some (v, []) => fieldMap v
  | _ => none

/-! ## alignment of the two sides -/

/-- the only attribute the two sides name differently -/
def pyNameOf : String → String
  | "last_token" => "last_token_index"
  | s => s

/-- a Rust field type and the Python annotation that receives it -/
def tyCompat : String → String → Bool
  | "TokenChannel", "TokenChannel" => true
  | "TokenType", "TokenType" => true
  | "ErrorKind", "ErrorKind" => true
  | "u32", "int" => true
  | "Payload", "int | float | tuple[int, int] | None" => true
  | "Option<TokenIdx>", "int | None" => true
  | _, _ => false

/-! ## what Python receives, field for field -/

def rsToPyPayload : RsPayload → PyPayload
  | .none => .none
  | .integer v => .int v
  | .float b => .float b
  | .stringLiteral a b => .pair a b

def rsToPyToken (t : RsToken) : PyToken :=
  { channel := t.channel, token_type := t.token_type, token_index := t.token_index, start := t.start,
    stop := t.stop, line := t.line, column := t.column, end_line := t.end_line,
    end_column := t.end_column, payload := rsToPyPayload t.payload }

def rsToPyError (e : RsError) : PyError :=
  { error_kind := e.error_kind, at_byte_offset := e.at_byte_offset, at_char_offset := e.at_char_offset,
    on_line := e.on_line, at_column := e.at_column, last_token_index := e.last_token.map Int.ofNat }

def rsToPy (r : RsResult) : PyResult :=
  { tokens := r.tokens.map rsToPyToken, errors := r.errors.map rsToPyError, lits := r.lits }

/-! ### representable results -/

def RsPayload.WF : RsPayload → Prop
  | .integer v => v < 18446744073709551616
  | .stringLiteral a b => a < 4294967296 ∧ b < 4294967296
  | _ => True

/-- every integer field fits its Rust type (`u8`/`u16`/`u32`; `u64` for `Payload::Integer`) -/
def RsToken.WF (t : RsToken) : Prop :=
  t.channel < 256 ∧ t.token_type < 65536 ∧ t.token_index < 4294967296 ∧ t.start < 4294967296
  ∧ t.stop < 4294967296 ∧ t.line < 4294967296 ∧ t.column < 4294967296 ∧ t.end_line < 4294967296
  ∧ t.end_column < 4294967296 ∧ t.payload.WF

def RsError.WF (e : RsError) : Prop :=
  e.error_kind < 65536 ∧ e.at_byte_offset < 4294967296 ∧ e.at_char_offset < 4294967296
  ∧ e.on_line < 4294967296 ∧ e.at_column < 4294967296
  ∧ (match e.last_token with | none => True | some i => i < 4294967296)

/-- fields fit their types; fewer than 2^32 tokens, errors and literal bytes (the lexer refuses
sources of 4 GiB or more) -/
def RsResult.WF (r : RsResult) : Prop :=
  r.tokens.length < 4294967296 ∧ r.errors.length < 4294967296 ∧ r.lits.length < 4294967296
  ∧ (∀ t ∈ r.tokens, t.WF) ∧ (∀ e ∈ r.errors, e.WF)

/-! # The enums: committed Python modules = what `build.rs` generates = the linked crate's enums

`build.rs` writes `class TokenType(IntEnum)` with one member per `TokenType::iter()` (declaration
order), named `conv.convert(variant.to_string())` and valued `variant as u16`, where
`conv = Converter::new().from_case(Case::Pascal).remove_boundaries(&[LowerDigit, UpperDigit])
.to_case(Case::UpperSnake)`; `TokenChannel` members keep their Rust names; `ErrorKind` members are
sorted by value and named with `from_case(Pascal).to_case(UpperSnake)` (all six Pascal boundaries).

`convert_case` 0.6.0 (`segmentation::split`) on an identifier without `_`, `-` or space: a new word
starts before character `cur` iff one of the enabled two-character boundaries matches `(prev, cur)`
or the `Acronym` boundary matches `(prev, cur, next)` = (upper, upper, lower); the words are
upper-cased and joined with `_`.  (`strum`'s `Display` without attributes prints the variant name.) -/

open PyEnums

/-- which of `convert_case`'s two- and three-character boundaries are enabled -/
structure Boundaries where
  lowerUpper : Bool
  acronym : Bool
  lowerDigit : Bool
  upperDigit : Bool
  digitLower : Bool
  digitUpper : Bool

/-- `Case::Pascal.boundaries()` -/
def Boundaries.pascal : Boundaries := ⟨true, true, true, true, true, true⟩
/-- … `.remove_boundaries(&[Boundary::LowerDigit, Boundary::UpperDigit])` -/
def Boundaries.pascalNoLetterDigit : Boundaries :=
  { Boundaries.pascal with lowerDigit := false, upperDigit := false }

def splitBefore (b : Boundaries) (prev cur : Char) (next : Option Char) : Bool :=
  (b.lowerUpper && prev.isLower && cur.isUpper)
  || (b.lowerDigit && prev.isLower && cur.isDigit)
  || (b.upperDigit && prev.isUpper && cur.isDigit)
  || (b.digitLower && prev.isDigit && cur.isLower)
  || (b.digitUpper && prev.isDigit && cur.isUpper)
  || (b.acronym && prev.isUpper && cur.isUpper && (match next with | some n => n.isLower | none => false))

def snakeGo (b : Boundaries) (prev : Char) : List Char → List Char
  | [] => []
  | cur :: rest =>
    (if splitBefore b prev cur rest.head? then ['_', cur.toUpper] else [cur.toUpper]) ++ snakeGo b cur rest

/-- `Converter{boundaries := b, pattern := Uppercase, delim := "_"}.convert` on an ASCII identifier -/
def upperSnake (b : Boundaries) : List Char → String
  | [] => ""
  | c :: rest => String.ofList (c.toUpper :: snakeGo b c rest)

def insertByValue (x : String × Nat) : List (String × Nat) → List (String × Nat)
  | [] => [x]
  | y :: ys => if x.2 < y.2 then x :: y :: ys else y :: insertByValue x ys
/-- stable sort by value (`sort_by_key`) -/
def sortByValue (l : List (String × Nat)) : List (String × Nat) := l.foldr insertByValue []

/-- what `build.rs` writes, from the enums of the crate it links -/
def tokenTypeOfRust (l : List (List Char × Nat)) : List (String × Nat) :=
  l.map fun (n, v) => (upperSnake .pascalNoLetterDigit n, v)
def tokenChannelOfRust (l : List (List Char × Nat)) : List (String × Nat) :=
  l.map fun (n, v) => (String.ofList n, v)
def errorKindOfRust (l : List (List Char × Nat)) : List (String × Nat) :=
  sortByValue (l.map fun (n, v) => (upperSnake .pascal n, v))

/-! The **workspace** crate (`/repo/crates/sas-lexer`, the modelled one) is *not* the linked crate:
its `TokenType` has `MacroVarResolve, MacroVarTerm` where the published 1.0.0-beta.3 has
`MacroVarExpr`, so every later discriminant is shifted by one and the committed `token_type.py`
does **not** describe the workspace crate.  `TokenChannel` and `ErrorKind` agree. -/

def wsTokenType : List (String × Nat) := TokenType.all.map fun t => (t.name, t.toNat)
def wsTokenChannel : List (String × Nat) := Channel.all.map fun t => (t.name, t.toNat)
def wsErrorKind : List (String × Nat) := ErrorKind.all.map fun t => (t.name, t.toNat)

end Msgpack
end SasLexer
