import SasLexer.Chars
import SasLexer.Prog
/-!
# `numeric.rs`

The third-party `lexical::parse_partial_with_options` is **modelled by its contract**
(longest valid prefix; value of that prefix; `Overflow`; `EmptyExponent n`), not verified.
Decimal→binary64 is exact rational arithmetic with round-to-nearest-even (`ratToF64`).
-/
namespace SasLexer

/-- nearest binary64 (ties to even) of the positive rational `n / d`, as IEEE-754 bits;
overflow gives +∞. -/
def ratToF64 (n d : Nat) : UInt64 :=
  if n = 0 ∨ d = 0 then 0
  else
    let e0 : Int := (n.log2 : Int) - (d.log2 : Int)
    let ge : Bool := if e0 ≥ 0 then decide (n ≥ d * 2 ^ e0.toNat) else decide (n * 2 ^ (-e0).toNat ≥ d)
    let e : Int := if ge then e0 else e0 - 1            -- 2^e ≤ n/d < 2^(e+1)
    let qe : Int := max e (-1022) - 52
    let num := if qe ≥ 0 then n else n * 2 ^ (-qe).toNat
    let den := if qe ≥ 0 then d * 2 ^ qe.toNat else d
    let q0 := num / den
    let r := num % den
    let q := if 2 * r > den ∨ (2 * r = den ∧ q0 % 2 = 1) then q0 + 1 else q0
    if e ≥ -1022 then
      let (e, q) := if q = 2 ^ 53 then (e + 1, 2 ^ 52) else (e, q)
      let biased := e + 1023
      if biased ≥ 2047 then 0x7FF0000000000000
      else UInt64.ofNat (biased.toNat * 2 ^ 52 + (q - 2 ^ 52))
    else UInt64.ofNat q

def digitsVal (base : Nat) (val : Char → Nat) (cs : List Char) : Nat := cs.foldl (fun a c => a * base + val c) 0
def decVal (c : Char) : Nat := c.toNat - 48
def hexDigitVal (c : Char) : Nat :=
  if isAsciiDigit c then c.toNat - 48 else if 'a' ≤ c && c ≤ 'f' then c.toNat - 87 else c.toNat - 55

structure NumRes where
  ty : TokenType
  payload : PaySpec
  len : Nat
  err : Option ErrorKind
  deriving Repr, Inhabited

def u64Max : Nat := 18446744073709551615

/-- `try_parse_integer` -/
def tryParseInteger (s : List Char) : Option NumRes :=
  let ds := s.takeWhile isAsciiDigit
  if ds.isEmpty then none
  else
    let v := digitsVal 10 decVal ds
    if v > u64Max then none else some ⟨.IntegerLiteral, .int v, ds.length, none⟩

/-- outcome of the float `parse_partial` contract on a decimal text -/
inductive FloatParse where
  | ok (bits : UInt64) (len : Nat) (hasExp : Bool)
  | emptyExponent (len : Nat)
  | fail

def parseFloatPartial (s : List Char) : FloatParse :=
  let ip := s.takeWhile isAsciiDigit
  let r1 := s.drop ip.length
  let (fp, hasDot, r2) :=
    match r1 with
    | '.' :: t => let f := t.takeWhile isAsciiDigit; (f, true, t.drop f.length)
    | _ => ([], false, r1)
  if ip.isEmpty && fp.isEmpty then .fail
  else
    let mlen := ip.length + (if hasDot then 1 + fp.length else 0)
    let mant := digitsVal 10 decVal (ip ++ fp)
    let mk (e10 : Int) : UInt64 :=
      let ex : Int := e10 - fp.length
      -- clamp: value ≥ 10^ex and value < 10^(ex + #digits); far outside binary64's range
      if mant = 0 then 0
      else if ex > 400 then 0x7FF0000000000000
      else if ex + (ip.length + fp.length : Nat) < -400 then 0
      else if ex ≥ 0 then ratToF64 (mant * 10 ^ ex.toNat) 1 else ratToF64 mant (10 ^ (-ex).toNat)
    match r2 with
    | c :: t =>
      if c == 'e' || c == 'E' then
        let (neg, slen, t') := match t with
          | '+' :: u => (false, 1, u)
          | '-' :: u => (true, 1, u)
          | _ => (false, 0, t)
        let ed := t'.takeWhile isAsciiDigit
        if ed.isEmpty then .emptyExponent (mlen + 1 + slen)
        else
          let ev : Int := digitsVal 10 decVal ed
          .ok (mk (if neg then -ev else ev)) (mlen + 1 + slen + ed.length) true
      else .ok (mk 0) mlen false
    | [] => .ok (mk 0) mlen false

/-- `try_parse_float` -/
def tryParseFloat (s : List Char) : Option NumRes :=
  match parseFloatPartial s with
  | .ok bits len hasExp =>
    if len = 0 then none
    else some ⟨if hasExp then .FloatExponentLiteral else .FloatLiteral, .float bits, len, none⟩
  | .emptyExponent len => if len = 0 then none else some ⟨.FloatLiteral, .float 0, len, some .InvalidNumericLiteral⟩
  | .fail => none

/-- `try_parse_decimal` -/
def tryParseDecimal (s : List Char) (tryInt tryFloat : Bool) : Option NumRes :=
  let i := if tryInt then tryParseInteger s else none
  let f := if tryFloat then tryParseFloat s else none
  match i, f with
  | some i, some f => if i.len ≥ f.len then some i else some f
  | some i, none => some i
  | none, some f => some f
  | none, none => none

/-- `try_parse_hex_integer`; on `u64` overflow the run of hex digits is converted to the nearest binary64 -/
def tryParseHexInteger (s : List Char) : Option NumRes :=
  let ds := s.takeWhile isAsciiHexDigit
  if ds.isEmpty then none
  else
    let v := digitsVal 16 hexDigitVal ds
    if v ≤ u64Max then some ⟨.IntegerLiteral, .int v, ds.length, none⟩
    else
      -- since the `fix:` only the run of hex digits is re-parsed as a radix-16 float
      let bits := ratToF64 v 1
      some ⟨.FloatLiteral, .float bits, ds.length, some .InvalidNumericLiteral⟩

end SasLexer
