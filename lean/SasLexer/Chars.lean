import SasLexer.Gen.Unicode
/-!
# Character predicates

`char::is_whitespace`, `unicode_ident::is_xid_start/continue` are table look-ups in tables
dumped from the linked crates (`Gen/Unicode.lean`); the ASCII-only predicates of
`sas_lang.rs` are written out.
-/
namespace SasLexer

/-- binary search in a sorted array of inclusive ranges -/
def inRanges (t : Array (Nat × Nat)) (n : Nat) : Bool :=
  go 0 t.size t.size
where
  go (lo hi : Nat) : Nat → Bool
    | 0 => false
    | fuel + 1 =>
      if lo < hi then
        let mid := (lo + hi) / 2
        match t[mid]? with
        | some (a, b) => if n < a then go lo mid fuel else if b < n then go (mid + 1) hi fuel else true
        | none => false
      else false

def isWhitespace (c : Char) : Bool := inRanges Gen.wsRanges c.toNat
def isXidStart (c : Char) : Bool := inRanges Gen.xidStartRanges c.toNat
def isXidContinue (c : Char) : Bool := inRanges Gen.xidContinueRanges c.toNat

def isAsciiDigit (c : Char) : Bool := '0' ≤ c && c ≤ '9'
def isAsciiHexDigit (c : Char) : Bool :=
  isAsciiDigit c || ('a' ≤ c && c ≤ 'f') || ('A' ≤ c && c ≤ 'F')
def isAscii (c : Char) : Bool := c.toNat < 128
def isAsciiAlpha (c : Char) : Bool := ('a' ≤ c && c ≤ 'z') || ('A' ≤ c && c ≤ 'Z')

/-- `is_valid_unicode_sas_name_start` -/
def isUnicodeNameStart (c : Char) : Bool := isXidStart c || c == '_'
/-- `is_valid_sas_name_start` -/
def isSasNameStart (c : Char) : Bool := isAsciiAlpha c || c == '_'
/-- `is_valid_sas_name_continue` -/
def isSasNameContinue (c : Char) : Bool := isAsciiAlpha c || isAsciiDigit c || c == '_'

/-- `u8::to_ascii_uppercase` on chars -/
def toUpperAscii (c : Char) : Char := if 'a' ≤ c && c ≤ 'z' then Char.ofNat (c.toNat - 32) else c

/-- the predicate of the identifier-eating `eat_while` closures (`lex_identifier`,
`lex_macro_call_stat_or_label`, `is_macro_stat`): ASCII → name-continue, else XID_Continue -/
def isIdentContinue (c : Char) : Bool := if isAscii c then isSasNameContinue c else isXidContinue c

end SasLexer
