import SasLexer.State
/-!
# The detached buffer (`TokenizedBuffer`), its accessors and the bulk resolved view

Oldest-first lists here (this is the externally visible order).  `u32` subtraction and
`[]` indexing are modelled with their Rust semantics: overflow panics when overflow checks
are on (debug profile) and wraps otherwise; out-of-range indexing panics.  The two
end-line formulas (`get_token_end_line` vs. `into_resolved_token_vec`) are kept **as
written in the code**; that they agree on every buffer the lexer produces is theorem C05.
-/
namespace SasLexer

structure DBuf where
  lines : List LineInfo
  toks : List TokInfo
  lits : List Char
  deriving Repr, DecidableEq, Inhabited

/-- `WorkTokenizedBuffer::into_detached` -/
def Lexer.intoDetached (cfg : Cfg) (L : Lexer) : DBuf × Lexer :=
  let L := if L.linesR.isEmpty then (L.bufAddLine cfg 0 0).2 else L
  let L :=
    match L.toksR with
    | t :: _ =>
      if t.ty = .EOF then L
      else { L with toksR := ⟨.DEFAULT, .EOF, L.srcLen, L.src.length, L.linesR.length - 1, .none⟩ :: L.toksR }
    | [] => { L with toksR := [⟨.DEFAULT, .EOF, L.srcLen, L.src.length, L.linesR.length - 1, .none⟩] }
  ({ lines := L.linesR.reverse, toks := L.toksR.reverse, lits := L.litsR.reverse }, L)

/-- accessor failure modes -/
inductive AccErr where
  | oob          -- `Err(ErrorKind::TokenIdxOutOfBounds)`
  | panic (msg : String)
  deriving Repr, DecidableEq, Inhabited

abbrev Acc := Except AccErr

def two32 : Nat := 4294967296

/-- `a - b` on `u32` -/
def subU32 (cfg : Cfg) (a b : Nat) : Acc Nat :=
  if b ≤ a then pure (a - b)
  else if cfg.debug then throw (.panic "attempt to subtract with overflow")
  else pure (a + two32 - b)

/-- `a + b` on `u32` -/
def addU32 (cfg : Cfg) (a b : Nat) : Acc Nat :=
  if a + b < two32 then pure (a + b)
  else if cfg.debug then throw (.panic "attempt to add with overflow")
  else pure (a + b - two32)

namespace DBuf

def tok (b : DBuf) (i : Nat) : Acc TokInfo :=
  match b.toks[i]? with | some t => pure t | none => throw .oob

def startByte (b : DBuf) (i : Nat) : Acc Nat := do pure (← b.tok i).byte
def start (b : DBuf) (i : Nat) : Acc Nat := do pure (← b.tok i).start

def endByte (b : DBuf) (i : Nat) : Acc Nat :=
  if i + 1 < b.toks.length then do pure (← b.tok (i + 1)).byte else do pure (← b.tok i).byte

def stop (b : DBuf) (i : Nat) : Acc Nat :=
  if i + 1 < b.toks.length then do pure (← b.tok (i + 1)).start else do pure (← b.tok i).start

def startLine (cfg : Cfg) (b : DBuf) (i : Nat) : Acc Nat := do addU32 cfg (← b.tok i).line 1

def endLine (cfg : Cfg) (b : DBuf) (i : Nat) : Acc Nat := do
  if i + 1 = b.toks.length then b.startLine cfg i
  else
    let next ← b.tok (i + 1)
    match b.lines[next.line]? with
    | none => throw .oob
    | some li =>
      let same := (match b.startByte i, b.endByte i with
                   | .ok x, .ok y => x == y | .error _, .error _ => true | _, _ => false)
      addU32 cfg next.line (if next.byte > li.byte || same then 1 else 0)

def startColumn (cfg : Cfg) (b : DBuf) (i : Nat) : Acc Nat := do
  let t ← b.tok i
  match b.lines[t.line]? with
  | none => throw .oob
  | some li => subU32 cfg t.start li.start

def endColumn (cfg : Cfg) (b : DBuf) (i : Nat) : Acc Nat := do
  let e ← b.stop i
  let el ← b.endLine cfg i
  let idx ← subU32 cfg el 1
  match b.lines[idx]? with
  | none => throw .oob
  | some li => subU32 cfg e li.start

/-- one row of the accessor view, in the field order of `ResolvedTokenInfo` -/
structure Row where
  chan : Channel
  ty : TokenType
  index : Nat
  start : Nat
  stop : Nat
  line : Nat
  col : Nat
  endLine : Nat
  endCol : Nat
  payload : Payload
  deriving Repr, DecidableEq, Inhabited

def accessorRow (cfg : Cfg) (b : DBuf) (i : Nat) : Acc Row := do
  let t ← b.tok i
  pure { chan := t.chan, ty := t.ty, index := i, start := ← b.start i, stop := ← b.stop i,
         line := ← b.startLine cfg i, col := ← b.startColumn cfg i, endLine := ← b.endLine cfg i,
         endCol := ← b.endColumn cfg i, payload := t.payload }

def lineIdx (b : DBuf) (i : Nat) : Acc LineInfo :=
  match b.lines[i]? with | some l => pure l | none => throw (.panic "index out of bounds")

/-- the loop of `into_resolved_token_vec` over consecutive pairs -/
def resolvedLoop (cfg : Cfg) (b : DBuf) : TokInfo → List TokInfo → Nat → Acc (List Row)
  | cur, [], idx => do
    let li ← b.lineIdx cur.line
    let col ← subU32 cfg cur.start li.start
    let ln ← addU32 cfg cur.line 1
    pure [{ chan := cur.chan, ty := cur.ty, index := idx, start := cur.start, stop := cur.start,
            line := ln, col := col, endLine := ln, endCol := col, payload := cur.payload }]
  | cur, next :: rest, idx => do
    let nli ← b.lineIdx next.line
    let endIdx ← subU32 cfg next.line (if next.byte == nli.byte && cur.byte < next.byte then 1 else 0)
    let ln ← addU32 cfg cur.line 1
    let cli ← b.lineIdx cur.line
    let col ← subU32 cfg cur.start cli.start
    let el ← addU32 cfg endIdx 1
    let eli ← b.lineIdx endIdx
    let ecol ← subU32 cfg next.start eli.start
    let row : Row := { chan := cur.chan, ty := cur.ty, index := idx, start := cur.start, stop := next.start,
                       line := ln, col := col, endLine := el, endCol := ecol, payload := cur.payload }
    let tl ← resolvedLoop cfg b next rest (idx + 1)
    pure (row :: tl)

/-- `into_resolved_token_vec` (`self.token_infos[0]` panics on an empty buffer) -/
def resolved (cfg : Cfg) (b : DBuf) : Acc (List Row) :=
  match b.toks with
  | [] => throw (.panic "index out of bounds")
  | t :: ts => resolvedLoop cfg b t ts 0

end DBuf
end SasLexer
