-- This module serves as the root of the `SasLexer` library.
-- Import modules here that should be built as part of the library.
import SasLexer.Basic
