-- Root of the `SasLexer` library: everything that `lake build SasLexer` must check.
import SasLexer.Lex.Main
import SasLexer.Spec.Basic
import SasLexer.Properties.C03
import SasLexer.Properties.C20
