import SasLexer.Lex.Main
import SasLexer.Spec.Basic
import SasLexer.Spec.C06
import SasLexer.Spec.C07
import SasLexer.Spec.C08
import SasLexer.Spec.C10
import SasLexer.Spec.C11
import SasLexer.Spec.Pairs
open SasLexer

def srcOfHexLine (line : String) : Option (List Char) := charsOfHex line.trimAscii.toString

partial def loopLines (h : IO.FS.Stream) (out : IO.FS.Stream) (f : String → String) : IO Unit := do
  let line ← h.getLine
  if line.isEmpty then return ()
  out.putStrLn (f (line.dropEndWhile (· == '\n')).toString)
  loopLines h out f

/-- verdict of one dump-level property on (source, dump) -/
def verdict1 (prop : String) (s : List Char) (d : Dump) : Option Spec.Verdict :=
  match prop with
  | "C02" => some (Spec.C02 s d)
  | "C03" => some (Spec.clause "char-offsets" (Spec.C03 s d) ++ Spec.clause "slices" (Spec.C03slices s d))
  | "C04" => some (Spec.C04 s d)
  | "C05" => some (Spec.C05 s d)
  | "C09" => some (Spec.C09 s d)
  | "C06" => some (Spec.C06 s d)
  | "C07" => some (Spec.C07 s d)
  | "C08" => some (Spec.C08 s d)
  | "C10" => some (Spec.C10 s d)
  | "C11" => some (Spec.C11 s d)
  | _ => none

def fmtVerdict (v : Spec.Verdict) : String := if v.isEmpty then "ok" else "fail " ++ ",".intercalate v

def checkLine (line : String) : String :=
  match line.splitOn "\t" with
  | [prop, hex, d1, d2] =>
    match charsOfHex hex, parseDump d1, parseDump d2 with
    | some s, some a, some b =>
      match prop with
      | "C17" => fmtVerdict (Spec.C17 s a b)
      | "C18" => fmtVerdict (Spec.C18 s a b)
      | "C19" => fmtVerdict (Spec.C19 s a b)
      | _ => "unknown-property"
    | _, _, _ => "badinput"
  | [prop, hex, hex2, d1, d2] =>
    match charsOfHex hex, charsOfHex hex2, parseDump d1, parseDump d2 with
    | some s, some s2, some a, some b =>
      match prop with
      | "C16" => fmtVerdict (Spec.C16 s s2 a b)
      | _ => "unknown-property"
    | _, _, _, _ => "badinput"
  | [prop, hexA, hexB, dA, dB, dAB] =>
    match charsOfHex hexA, charsOfHex hexB, parseDump dA, parseDump dB, parseDump dAB with
    | some a, some b, some x, some y, some z =>
      match prop with
      | "C15" => if Spec.closedPrefix a x && b.head? != some BOM && y.outcome == .ok then fmtVerdict (Spec.C15 a b x y z) else "n/a"
      | _ => "unknown-property"
    | _, _, _, _, _ => "badinput"
  | [prop, hex, dump] =>
    match charsOfHex hex, parseDump dump with
    | some s, some d =>
      match verdict1 prop s d with
      | some [] => "ok"
      | some cs => "fail " ++ ",".intercalate cs
      | none => "unknown-property"
    | _, _ => "badinput"
  | _ => "badinput"

def cfgOf (d m : String) : Cfg := { debug := d == "1", macroSep := m == "1" }

def main (args : List String) : IO UInt32 := do
  let stdin ← IO.getStdin
  let stdout ← IO.getStdout
  match args with
  | ["dump", d, m] =>
    let cfg := cfgOf d m
    loopLines stdin stdout fun line =>
      match srcOfHexLine line with
      | some s => (modelDump cfg s).format
      | none => "badinput"
    return 0
  | ["check"] =>
    loopLines stdin stdout checkLine
    return 0
  | _ =>
    IO.eprintln "usage: sasmodel dump <debug 0|1> <macro_sep 0|1>"
    return 2
