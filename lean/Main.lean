import SasLexer.Lex.Main
import SasLexer.Script
import SasLexer.Spec.Basic
import SasLexer.Spec.C01
import SasLexer.Spec.C06
import SasLexer.Spec.C07
import SasLexer.Spec.C08
import SasLexer.Spec.C10
import SasLexer.Spec.C11
import SasLexer.Spec.C20
import SasLexer.Spec.Pairs
import SasLexer.Spec.Grammar
import SasLexer.Properties.C04
import SasLexer.Properties.C17
open SasLexer

def srcOfHexLine (line : String) : Option (List Char) := charsOfHex line.trimAscii.toString

partial def loopLines (h : IO.FS.Stream) (out : IO.FS.Stream) (f : String → String) : IO Unit := do
  let line ← h.getLine
  if line.isEmpty then return ()
  out.putStrLn (f (line.dropEndWhile (· == '\n')).toString)
  loopLines h out f

/-- verdict of one dump-level property on (source, dump) -/
def verdict1 (prop : String) (s : List Char) (d : Dump) : Option Spec.Verdict :=
  match prop with
  | "C01" => some (Spec.C01 s d)
  | "C02" => some (Spec.C02 s d)
  | "C03" => some (Spec.clause "char-offsets" (Spec.C03 s d) ++ Spec.clause "slices" (Spec.C03slices s d))
  | "C04" => some (Spec.C04 s d)
  | "C05" => some (Spec.C05 s d)
  | "C09" => some (Spec.C09 s d)
  | "C06" => some (Spec.C06 s d)
  | "C07" => some (Spec.C07 s d)
  | "C08" => some (Spec.C08 s d)
  | "C10" => some (Spec.C10 s d)
  | "C11" => some (Spec.C11 s d)
  | "C12" => some (Spec.C12 s d)
  | _ => none

def fmtVerdict (v : Spec.Verdict) : String := if v.isEmpty then "ok" else "fail " ++ ",".intercalate v

def tokTypeOfName (n : String) : Option TokenType := TokenType.all.find? (·.name == n)
def errKindOfName (n : String) : Option ErrorKind := ErrorKind.all.find? (·.name == n)

def parsePairs (s : String) : Option (List (Nat × String)) :=
  if s == "-" || s == "" then some [] else
  (s.splitOn ",").mapM fun p => match p.splitOn ":" with
    | [a, b] => do pure (← a.toNat?, b)
    | _ => none

def parseNats (s : String) : Option (List Nat) :=
  if s == "-" || s == "" then some [] else (s.splitOn ",").mapM String.toNat?

def checkLine (line : String) : String :=
  match line.splitOn "\t" with
  | ["LINEWF", hex, dump] =>
    -- hypothesis of the pure C04 theorem (`C04_of_lineWF`), evaluated on an implementation dump
    match charsOfHex hex, parseDump dump with
    | some s, some d => if lineWFB s ⟨d.lines, d.toks, d.lits⟩ then "1" else "0"
    | _, _ => "badinput"
  | ["SIDEOK", dbg, sep, hex] =>
    -- side condition of the kernel shift theorem (`C17_model_partial`), monitored on the model run
    match charsOfHex hex with
    | some s => if lexSideOk { debug := dbg == "1", macroSep := sep == "1" } s then "1" else "0"
    | none => "badinput"
  | ["C20", hex, bytesHex] =>
    match charsOfHex hex, bytesOfHex bytesHex.toList with
    | some s, some b => fmtVerdict (Spec.C20 s b)
    | _, _ => "badinput"
  | ["C20wire", _, bytesHex] =>
    match bytesOfHex bytesHex.toList with
    | some b => fmtVerdict (Spec.C20wire b)
    | none => "badinput"
  | ["C13", hex, dump, delims, masked, hidden] =>
    match charsOfHex hex, parseDump dump, parsePairs delims, parseNats masked, parsePairs hidden with
    | some s, some d, some dl, some mk, some hd =>
      match dl.mapM (fun (b, n) => (tokTypeOfName n).map (b, ·)), hd.mapM (fun (a, e) => e.toNat?.map (a, ·)) with
      | some dl', some hd' => fmtVerdict (Spec.C13 s d dl' mk hd')
      | _, _ => "badinput"
    | _, _, _, _, _ => "badinput"
  | ["C14", hex, dump, kind, at_, ty, cnt] =>
    match charsOfHex hex, parseDump dump, errKindOfName kind, at_.toNat?, tokTypeOfName ty, cnt.toNat? with
    | some s, some d, some k, some a, some t, some c => fmtVerdict (Spec.C14 s d k a t c)
    | _, _, _, _, _, _ => "badinput"
  | ["C15", hexA, hexB, dA, dB, dAB] =>
    match charsOfHex hexA, charsOfHex hexB, parseDump dA, parseDump dB, parseDump dAB with
    | some a, some b, some x, some y, some z =>
      if Spec.closedPrefix a x && b.head? != some BOM && y.outcome == .ok then fmtVerdict (Spec.C15 a b x y z) else "n/a"
    | _, _, _, _, _ => "badinput"
  | ["C15m", hexA, hexB, dA, dB, dAB, dAm] =>
    match charsOfHex hexA, charsOfHex hexB, parseDump dA, parseDump dB, parseDump dAB, parseDump dAm with
    | some a, some b, some x, some y, some z, some m =>
      if Spec.closedPrefix a m && b.head? != some BOM && y.outcome == .ok then fmtVerdict (Spec.C15m a b x y z m) else "n/a"
    | _, _, _, _, _, _ => "badinput"
  | ["C16", hex, hex2, d1, d2] =>
    match charsOfHex hex, charsOfHex hex2, parseDump d1, parseDump d2 with
    | some s, some s2, some a, some b => fmtVerdict (Spec.C16 s s2 a b)
    | _, _, _, _ => "badinput"
  | [prop, hex, d1, d2] =>
    match charsOfHex hex, parseDump d1, parseDump d2 with
    | some s, some a, some b =>
      match prop with
      | "C17" => fmtVerdict (Spec.C17 s a b)
      | "C18" => fmtVerdict (Spec.C18 s a b)
      | "C19" => fmtVerdict (Spec.C19 s a b)
      | _ => "unknown-property"
    | _, _, _ => "badinput"
  | [prop, hex, dump] =>
    match charsOfHex hex, parseDump dump with
    | some s, some d =>
      match verdict1 prop s d with
      | some v => fmtVerdict v
      | none => "unknown-property"
    | _, _ => "badinput"
  | _ => "badinput"

def cfgOf (d m : String) : Cfg := { debug := d == "1", macroSep := m == "1" }

def main (args : List String) : IO UInt32 := do
  let stdin ← IO.getStdin
  let stdout ← IO.getStdout
  match args with
  | ["dump", d, m] =>
    let cfg := cfgOf d m
    loopLines stdin stdout fun line =>
      match srcOfHexLine line with
      | some s => (modelDump cfg s).format
      | none => "badinput"
    return 0
  | ["script", d, m] =>
    let cfg := cfgOf d m
    loopLines stdin stdout (scriptLine cfg)
    return 0
  | ["bufscript", d] =>
    let cfg := cfgOf d "0"
    loopLines stdin stdout (bufScriptLine cfg)
    return 0
  | ["check"] =>
    loopLines stdin stdout checkLine
    return 0
  | _ =>
    IO.eprintln "usage: sasmodel dump <debug 0|1> <macro_sep 0|1>"
    return 2
