import SasLexer.Lex.Main
open SasLexer

def srcOfHexLine (line : String) : Option (List Char) := charsOfHex line.trimAscii.toString

partial def loopLines (h : IO.FS.Stream) (out : IO.FS.Stream) (f : String → String) : IO Unit := do
  let line ← h.getLine
  if line.isEmpty then return ()
  out.putStrLn (f (line.dropEndWhile (· == '\n')).toString)
  loopLines h out f

def cfgOf (d m : String) : Cfg := { debug := d == "1", macroSep := m == "1" }

def main (args : List String) : IO UInt32 := do
  let stdin ← IO.getStdin
  let stdout ← IO.getStdout
  match args with
  | ["dump", d, m] =>
    let cfg := cfgOf d m
    loopLines stdin stdout fun line =>
      match srcOfHexLine line with
      | some s => (modelDump cfg s).format
      | none => "badinput"
    return 0
  | _ =>
    IO.eprintln "usage: sasmodel dump <debug 0|1> <macro_sep 0|1>"
    return 2
